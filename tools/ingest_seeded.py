#!/usr/bin/env python3
"""usage: tools/ingest_seeded.py <agent-worktree> <seeded-id> <property> [<more properties to run>...]

Takes a property-breaking change produced by a sub-agent in its own scratch worktree, confirms it
independently in fresh scratch worktrees of /repo HEAD (never in /repo itself):
  * the patch applies, builds, and the unedited test suite passes with it,
  * the demonstration fails with the patch and passes without it,
then runs the quick check(s) against the patched tree and stores everything under /verif/seeded/<id>/.
"""
import json, os, shutil, subprocess, sys, time

ENV = dict(os.environ, GOFLAGS="-mod=mod", GOPROXY="off", GOSUMDB="off")


def sh(cmd, cwd=None, timeout=1800):
    p = subprocess.run(cmd, cwd=cwd, env=ENV, shell=isinstance(cmd, str), stdout=subprocess.PIPE, stderr=subprocess.STDOUT, text=True, timeout=timeout)
    return p.returncode, p.stdout


def main():
    src, sid, prop = sys.argv[1], sys.argv[2], sys.argv[3]
    props = [prop] + sys.argv[4:]
    out = os.path.join("/verif/seeded", sid)
    rc, diff = sh(["git", "diff"], cwd=src)
    if not diff.strip():
        print("no tracked change in", src)
        return 2
    rc, untracked = sh(["git", "ls-files", "--others", "--exclude-standard"], cwd=src)
    demos = [f for f in untracked.split() if f.endswith("_test.go")]
    if not demos:
        print("no demo test found")
        return 2
    if os.path.exists(out):
        shutil.rmtree(out)
    os.makedirs(os.path.join(out, "demo"))
    open(os.path.join(out, "patch.diff"), "w").write(diff)
    for f in demos:
        os.makedirs(os.path.dirname(os.path.join(out, "demo", f)) or out, exist_ok=True)
        shutil.copy(os.path.join(src, f), os.path.join(out, "demo", f))
    if os.path.exists(os.path.join(src, "AGENT_REPORT.md")):
        shutil.copy(os.path.join(src, "AGENT_REPORT.md"), os.path.join(out, "AGENT_REPORT.md"))

    meta = {"id": sid, "property": prop, "origin": "sub-agent working only from the property text in its own scratch worktree",
            "demo_files": demos, "ran": []}
    wt = "/root/scratch/ingest-%d" % os.getpid()
    sh(["git", "-C", "/repo", "worktree", "remove", "--force", wt])
    try:
        rc, o = sh(["git", "-C", "/repo", "worktree", "add", "-q", "--detach", wt, "HEAD"])
        pkgs = sorted(set("./" + (os.path.dirname(f) or ".") for f in demos))
        run_demo = "go test -vet=off -count=1 " + ("-race " if os.environ.get("INGEST_RACE") else "") + "-run 'TestDemo' " + " ".join(pkgs)
        # without the patch: demo passes
        for f in demos:
            shutil.copy(os.path.join(out, "demo", f), os.path.join(wt, f))
        rc_clean, o_clean = sh(run_demo, cwd=wt)
        meta["ran"].append({"cmd": run_demo + "   # unchanged tree", "rc": rc_clean})
        # with the patch
        rc_ap, o_ap = sh(["git", "apply", os.path.join(out, "patch.diff")], cwd=wt)
        rc_b, o_b = sh("go build ./...", cwd=wt)
        rc_demo, o_demo = sh(run_demo, cwd=wt)
        meta["ran"].append({"cmd": run_demo + "   # with patch", "rc": rc_demo})
        for f in demos:
            os.remove(os.path.join(wt, f))
        rc_suite, o_suite = sh("go test -vet=off -count=1 ./...", cwd=wt)
        meta["ran"].append({"cmd": "go test -vet=off -count=1 ./...   # with patch, demo removed", "rc": rc_suite})
        meta["confirmed"] = {"applies": rc_ap == 0, "builds": rc_b == 0, "suite_passes_with_patch": rc_suite == 0,
                             "demo_passes_without_patch": rc_clean == 0, "demo_fails_with_patch": rc_demo != 0}
        ok = all(meta["confirmed"].values())
        print("confirmed:", json.dumps(meta["confirmed"]))
        if not ok:
            print((o_ap + o_b)[-600:])
            print("demo(clean):", o_clean[-400:])
            print("demo(patch):", o_demo[-400:])
            print("suite:", o_suite[-400:])
        # run my checks against the patched tree
        meta["checks"] = {}
        for p in props:
            t0 = time.time()
            env = dict(ENV, VERIF_REPO=wt, VERIF_EVIDENCE_DIR="/root/scratch/ev-ingest")
            pr = subprocess.run(["/verif/check", p, os.environ.get("INGEST_TIER", "quick")], cwd="/verif", env=env, stdout=subprocess.PIPE, stderr=subprocess.STDOUT, text=True)
            lines = [l for l in pr.stdout.splitlines() if l.startswith(("clause", "VIOLATION", "HARNESS", "KNOWN"))]
            meta["checks"][p] = {"rc": pr.returncode, "tier": os.environ.get("INGEST_TIER", "quick"), "wall_s": round(time.time() - t0, 1), "lines": [l[:300] for l in lines[:6]]}
            print(p, "rc=%d" % pr.returncode, " | ".join(l[:200] for l in lines[:3]))
        shutil.rmtree("/root/scratch/ev-ingest", ignore_errors=True)
        meta["caught_by"] = [p for p, r in meta["checks"].items() if r["rc"] == 1]
    finally:
        sh(["git", "-C", "/repo", "worktree", "remove", "--force", wt])
        shutil.rmtree(wt, ignore_errors=True)
    json.dump(meta, open(os.path.join(out, "meta.json"), "w"), indent=1)
    return 0


if __name__ == "__main__":
    sys.exit(main())
