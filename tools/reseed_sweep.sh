#!/bin/bash
# usage: tools/reseed_sweep.sh [<id-prefix>...]  — re-runs every kept property-breaking change (seeded/<id>/patch.diff)
# against the checks as they are now, on a scratch worktree of /repo HEAD; one line per change:
#   CAUGHT <id> <props that reported a violation> | MISSED <id> | NOAPPLY <id> (the patch no longer applies to HEAD)
cd "$(dirname "$0")/.."
for D in seeded/*/; do
  ID=$(basename "$D")
  if [ $# -gt 0 ]; then ok=0; for P in "$@"; do [[ "$ID" == $P* ]] && ok=1; done; [ $ok = 1 ] || continue; fi
  PROPS=$(python3 -c "
import json,sys
m=json.load(open('$D/meta.json'))
ps=m.get('caught_by') or [m.get('breaks') or m.get('property')]
print(' '.join(ps[:2]))")
  OUT=$(MUTANT_TESTS=0 tools/mutant_run.sh "$PWD/$D/patch.diff" $PROPS 2>&1)
  if echo "$OUT" | grep -q "cannot apply"; then echo "NOAPPLY $ID"; continue; fi
  C=$(echo "$OUT" | grep "rc=1" | awk '{print $1}' | tr '\n' ' ')
  T=$(echo "$OUT" | grep "rc=2" | awk '{print $1}' | tr '\n' ' ')
  if [ -n "$C" ]; then echo "CAUGHT $ID $C"; elif [ -n "$T" ]; then echo "TROUBLE $ID $T"; else echo "MISSED $ID ($PROPS)"; fi
done
