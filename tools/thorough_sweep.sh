#!/bin/bash
# usage: tools/thorough_sweep.sh <tier> <seed>...   — runs every claimed check at the given tier for each seed, one line per run
cd "$(dirname "$0")/.."
TIER=$1; shift
for S in "$@"; do
  for P in C01 C03 C05 C06 C07 C09 C10 C11 C12 C14 C18 C20; do
    T0=$(date +%s)
    OUT=$(VERIF_SEED=$S ./check $P $TIER 2>&1); RC=$?
    echo "seed=$S $P tier=$TIER rc=$RC wall=$(( $(date +%s) - T0 ))s $(echo "$OUT" | grep -E '^(worlds=|clause|VIOLATION|HARNESS|KNOWN)' | cut -c1-220 | tr '\n' ' ')"
  done
done
