#!/bin/bash
# usage: tools/mutant_run.sh <patch-file | revert:<commit>> <prop> [<prop>...]
# Applies a change to a scratch worktree of /repo (never to /repo itself), runs the
# quick checks against it (VERIF_REPO), prints one line per property, removes the worktree.
set -u
CHANGE=$1; shift
WT=/root/scratch/wt-$$
mkdir -p /root/scratch
git -C /repo worktree add -q --detach "$WT" HEAD || exit 2
cleanup() { git -C /repo worktree remove --force "$WT" >/dev/null 2>&1; rm -rf "$WT"; }
trap cleanup EXIT
if [[ "$CHANGE" == revert:* ]]; then
  (cd "$WT" && git revert -n "${CHANGE#revert:}" >/dev/null) || { echo "cannot revert"; exit 2; }
else
  (cd "$WT" && git apply "$CHANGE") || { echo "cannot apply"; exit 2; }
fi
if [ "${MUTANT_TESTS:-1}" = "1" ]; then
  (cd "$WT" && GOFLAGS=-mod=mod GOPROXY=off GOSUMDB=off go build ./... && GOFLAGS=-mod=mod GOPROXY=off GOSUMDB=off go test -vet=off -count=1 ./... >/tmp/mutant-tests-$$.log 2>&1) && echo "suite: pass" || { echo "suite: FAIL"; tail -5 /tmp/mutant-tests-$$.log; }
  rm -f /tmp/mutant-tests-$$.log
fi
for P in "$@"; do
  OUT=$(cd /verif && VERIF_REPO="$WT" VERIF_EVIDENCE_DIR=/root/scratch/ev-$$ ./check "$P" ${MUTANT_TIER:-quick} 2>&1)
  RC=$?
  echo "$P rc=$RC $(echo "$OUT" | grep -E '^(clause|VIOLATION|HARNESS-ERROR|KNOWN)' | head -4 | tr '\n' ' ')"
done
rm -rf /root/scratch/ev-$$
