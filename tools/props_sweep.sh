#!/bin/bash
# usage: tools/props_sweep.sh <tier> "<props>" <seed>...   — like thorough_sweep.sh, for the named checks only
cd "$(dirname "$0")/.."
TIER=$1; PROPS=$2; shift 2
for S in "$@"; do
  for P in $PROPS; do
    T0=$(date +%s)
    OUT=$(VERIF_SEED=$S ./check $P $TIER 2>&1); RC=$?
    echo "seed=$S $P tier=$TIER rc=$RC wall=$(( $(date +%s) - T0 ))s $(echo "$OUT" | grep -E '^(worlds=|clause|VIOLATION|HARNESS|KNOWN)' | cut -c1-220 | tr '\n' ' ')"
  done
done
