package zz_verif_sim

import (
	"encoding/json"
	"flag"
	"fmt"
	"os"
	"runtime"
	"runtime/debug"
	"sort"
	"strings"
	"sync/atomic"
	"testing"
	"time"

	"pgregory.net/rapid"
)

var (
	fProp    = flag.String("sim.prop", "", "property id")
	fTier    = flag.String("sim.tier", "quick", "quick|thorough")
	fSeed    = flag.Uint64("sim.seed", 1, "VERIF_SEED")
	fShard   = flag.Int("sim.shard", 0, "shard index")
	fNShards = flag.Int("sim.nshards", 1, "number of shards")
	fOut     = flag.String("sim.out", "", "result file (json)")
	fReplay  = flag.String("sim.replay", "", "replay file to execute")
	fWorlds  = flag.Int("sim.worlds", 0, "override the number of worlds of this shard")
	fMode    = flag.String("sim.mode", "", "special mode (race, child, log)")
	fLog     = flag.String("sim.log", "", "write a per-world event log here (determinism self-test)")
	fJournal = flag.String("sim.journal", "", "write every plan here before executing it (crash forensics)")
	fBatch   = flag.Int("sim.batch", -1, "run only this batch (the driver runs every batch in a process of its own: the parser's static caches grow with every distinct script)")
)

// Property is one claimed property's machinery.
type Property struct {
	ID     string
	Level  string
	Worlds map[string]int // worlds per shard and rapid batch, per tier
	Batch  map[string]int // number of rapid batches (seeds) per shard, per tier
	// World generates and executes one world from the tape.
	World func(tp *Tape, env *Env) (*Plan, *Violation)
	// Replay executes a stored plan.
	Replay func(plan *Plan) *Violation
	// Fixed runs deterministic, tape-free parts (enumerations, regression probes) once per shard.
	Fixed func(env *Env) []*Plan
	Rule  string
}

// expectedProbes are the rare conditions a check wants to have reached; they start at 0 so that a
// probe that never fires is visible in the evidence (probes_at_zero).
var expectedProbes = map[string][]string{
	"C01": {"program.nesting_depth_3", "program.jump_inside_nested_body", "program.options_end_a_body", "world.nodes_over_several_readers", "world.command_polled_while_pending", "world.hub_loop", "program.block_chain_6_to_12_deep", "world.size_outlier"},
	"C03": {"world_with_failing_statement", "world_with_host_write", "storer_history", "storer_history_with_two_type_switches_on_one_name", "continued_after_failing_statement"},
	"C06": {"fault_requiring_error", "fault_with_open_outcome", "handler_with_an_unusual_channel_result", "markup_world_run_without_a_model"},
	"C07": {"receiver.FRESH", "receiver.READY", "receiver.CHOOSING", "receiver.PENDING", "receiver.ENDED", "receiver.sibling_path", "receiver.restored_before", "two_receivers_of_one_snapshot", "restored_from_a_rebuilt_copy_of_the_snapshot", "restore_of_a_hollow_snapshot_attempted", "start_in_an_untitled_node_with_nothing_to_save", "tens_of_thousands_of_silent_statements", "restored_from_a_snapshot_taken_inside_a_host_callback", "two_nodes_share_the_start_nodes_title", "second_generation_snapshot_restored"},
	"C09": {"trace_with_error_texts", "seeded_run_with_a_restore"},
	"C10": {"shape.raw_prefilled", "shape.raw_buffered", "shape.raw_unbuffered", "shape.conv_none", "shape.conv_error", "shape.conv_chan", "shape.conv_rochan", "wait_polled_one_tick_before_deadline", "command_error_surfaced", "command_polled_over_1000_times"},
	"C11": {"node_left_three_times", "untracked_node_visited", "restore_then_jump", "world_with_failing_jumps", "node_left_over_127_times", "pass_through_node_traversed", "restore_refused_then_counting_goes_on", "node_title_ending_in_white_space", "two_nodes_share_the_start_nodes_title"},
	"C12": {"ended_by_stop_or_node_end", "end_with_statements_still_queued", "post_end_call_with_out_of_range_argument", "stop_inside_block_chain_6_to_12_deep", "host_registered_a_stop_command", "world_with_failing_statements_on_the_way", "restore_refused_after_the_end"},
	"C14": {"history_with_failed_parse_in_the_middle", "history_repeats_an_earlier_line", "history_over_32_lines_then_the_first_again", "same_line_shown_again_after_32_other_inputs", "marked_up_option_group_shown_again", "one_statement_shown_with_different_substituted_text", "interpolation_failed_right_before_an_interpolated_line"},
	"C18": {"burst_inside_storer_read", "burst_inside_host_function", "burst_inside_command_handler", "runner_created_between_steps_of_another", "aborted_load_before_a_creation"},
	"C20": {"queue_grew_while_wrapped", "queue_grew_while_wrapped_twice", "stream_with_more_than_8_indents"},
}

var registry = map[string]*Property{}

func register(p *Property) { registry[p.ID] = p }

func init() {
	register(&Property{ID: "C01", Level: "exploration", World: c01World, Replay: c01Replay,
		Worlds: map[string]int{"quick": 2000, "thorough": 3000}, Batch: map[string]int{"quick": 1, "thorough": 12},
		Rule: "worlds = generated program x layout x reader distribution x completion schedule, each run over all model-legal choice paths (<=64 leaves) or 8 sampled ones; a case is a (program, path); non-trivial = constructs nested >=2 deep, or a jump inside a nested body, or an option group ending an if/option body; distinct by hash of (program AST, choices)"})
	register(&Property{ID: "C03", Level: "exploration", World: c03World, Replay: func(p *Plan) *Violation {
		if ops, ok := decodeExtra[[]storerOp](p, "storer_ops"); ok {
			return c03StorerExec(ops, nil)
		}
		return c03Exec(p, nil)
	},
		Worlds: map[string]int{"quick": 4000, "thorough": 5000}, Batch: map[string]int{"quick": 1, "thorough": 30},
		Rule: "worlds = set/declare-heavy generated program (all six operators, typed and ill-typed, known and unknown variables) x host schedule with interleaved host-side writes (same type, new name, other type, clear) x storer kind (recording storer / host-held InMemoryStorer); after every op the storer's content is compared bit-exactly with the model store; non-trivial = >=3 assignments and (>=1 host write or a failing statement); distinct by hash of (program, ops)"})
	register(&Property{ID: "C06", Level: "exploration", World: c06World, Replay: func(p *Plan) *Violation {
		if b, _ := p.Extra["markup"].(bool); b {
			return c06MarkupExec(p, nil)
		}
		return c06Exec(p, nil)
	},
		Worlds: map[string]int{"quick": 4000, "thorough": 5000}, Batch: map[string]int{"quick": 1, "thorough": 30},
		Rule: "worlds = generated program with 1-2 fault sites (ill-typed operands, unknown variable/function/node/command, wrong arity or argument type, null, empty or overflowing random ranges, value-less or failing host function, non-boolean condition, bad wait arguments) at any depth, plus host faults (store cleared, other-type or markup-laden values written between steps); the model names the op of the first fault: an error is required there (or no panic where the properties leave the outcome open), then 8 further calls must not panic; non-trivial = the fault site was reached on the driven path; distinct by hash of (program, ops)"})
	register(&Property{ID: "C10", Level: "exploration", World: c10World, Replay: func(p *Plan) *Violation { return c10Exec(p, nil) },
		Worlds: map[string]int{"quick": 2500, "thorough": 4000}, Batch: map[string]int{"quick": 1, "thorough": 24},
		Rule: "worlds = command-heavy generated program x handler shapes (raw pre-filled / buffered / unbuffered channel, converted func(), func() error, func() chan error, func() <-chan error, typed and variadic parameters) x completion schedule per invocation (immediate, after 0-4 polls, nil or error) x host ops between polls (writes, clock advances) x <<wait n>> polled 1ns/1us before and after its deadline, all inside a testing/synctest bubble; each world is run again under another completion schedule and the two real traces are compared; non-trivial = >=1 invocation or wait and >=1 poll while pending; distinct by hash of (program, ops)"})
	register(&Property{ID: "C07", Level: "fault_enumeration", World: c07World, Replay: func(p *Plan) *Violation { return c07Exec(p, nil) },
		Worlds: map[string]int{"quick": 600, "thorough": 2000}, Batch: map[string]int{"quick": 1, "thorough": 5},
		Rule: "worlds = multi-node generated program with jumps, variables, rendered visit counts, options, commands; an original run of 2-12 host steps in which EVERY step is a save point (snapshot + deep copy; immutability re-checked after every later op); a case is one crash/restore experiment (save point k, crash point c, receiver state: fresh / ready / choosing / pending / ended / sibling path / restored before, optionally a second receiver of the same snapshot, or a bogus snapshot) compared op by op (responses, variables, side effects, snapshots) against a reference runner replaying the original up to that node entry; non-trivial = snapshot with >=1 variable and >=1 non-zero visit count restored into a non-fresh receiver; distinct by hash of (program, original ops, experiment)"})
	register(&Property{ID: "C11", Level: "exploration", World: c11World, Replay: func(p *Plan) *Violation { return c11Exec(p, nil) },
		Worlds: map[string]int{"quick": 2500, "thorough": 4000}, Batch: map[string]int{"quick": 1, "thorough": 24},
		Rule: "worlds = jump-heavy generated program (self-loops, cycles, jumps out of nested option/if bodies, jumps by expression, any subset of nodes tracking: never/always) whose nodes start with an entry probe and whose lines render visited_count/visited for every node and two non-node names x a host schedule of 3-24 steps with snapshots and restores; expected counters are derived from the real run's own entry-probe log; non-trivial = >=2 jumps executed; distinct by hash of (program, ops)"})
	register(&Property{ID: "C12", Level: "exploration", World: c12World, Replay: func(p *Plan) *Violation { return c12Exec(p, nil) },
		Worlds: map[string]int{"quick": 4000, "thorough": 5000}, Batch: map[string]int{"quick": 1, "thorough": 40},
		Rule: "worlds = generated program with <<stop>> at any depth, option groups with empty bodies at the tail, commands, calls and sets queued behind the end x a path to the first end x 1-8 further calls with in-range, out-of-range, negative and huge arguments interleaved with host writes, clock advances and releases, optionally followed by a restore and a second round; non-trivial = >=2 post-end calls, one with a non-zero argument, on a program with a stop or an option group; distinct by hash of (program, path, post-end schedule, round)"})
	register(&Property{ID: "C05", Level: "fault_enumeration", World: c05World, Replay: c05Replay, Fixed: c05Fixed,
		Worlds: map[string]int{"quick": 50, "thorough": 120}, Batch: map[string]int{"quick": 1, "thorough": 8},
		Rule: "a case is one faulted delivery of a base script through the real NewDialogueRunner: EVERY truncation offset and EVERY single-byte deletion of each generated base script (strided only above 700 bytes; the repo's own .yarn fixtures are strided), plus sampled byte/bit flips, insertions of syntax fragments, line swaps/duplications/drops/re-indentations (incl. tab/space mixes), read errors at an offset, byte-level splits over 2-3 readers, seed strings, random byte strings and the empty input, each under one of 8 chunkings / 2 EOF styles; judged against an independent lexer+parser run with a counting error listener; non-trivial = the fault changed the stream's validity verdict; distinct by hash of the faulted bytes"})
	register(&Property{ID: "C20", Level: "exploration", World: c20World, Replay: c20Replay,
		Worlds: map[string]int{"quick": 3000, "thorough": 8000}, Batch: map[string]int{"quick": 1, "thorough": 12},
		Rule: "three kinds of cases: (1) histories of 1-120 Enqueue/Dequeue/Peek/Size ops on container.Queue[int] with unique values against a slice, biased to fill, shift and grow the ring buffer; (2) histories of Push/PushAll/Pop/Peek/Size/Clear on container.Stack[int]; (3) token streams of the real lexer over a generated, deeply indented script and its stream faults (every truncation offset, every byte deletion, sampled mutations): DEDENT never exceeds INDENT, both are equal at EOF, one EOF ends the stream, no nil token; non-trivial = queue history with >=1 growth / stack depth >=4 / token stream with >=2 INDENTs; distinct by hash of the history or bytes"})
	register(&Property{ID: "C09", Level: "exploration", World: c09World, Replay: func(p *Plan) *Violation { return c09Exec(p, nil) },
		Worlds: map[string]int{"quick": 1200, "thorough": 3000}, Batch: map[string]int{"quick": 1, "thorough": 8},
		Rule: "worlds = generated program using dice/random/random_range in lines, conditions, sets and option conditions x seed string over [0-9a-z]{1,20} x host schedule of 3-24 steps; each world is executed 7+ times in-process (plain, repeated, after 1-3 unrelated seeded runners, after 1-50 draws from the global math/rand and math/rand/v2 sources, under a clock moved by up to 10^6 s inside a bubble, with a neighbour runner stepped during its callbacks, with a new seeded runner created and stepped between any two of its steps; 30 % of the schedules take a snapshot and restore it once or twice) and, in the procs mode, in fresh child processes with GOMAXPROCS 1/4/16 and GOGC 100/25/off; canonical traces (elements, error texts, variables after every op) must be byte-identical and every rendered random value must lie in its range; non-trivial = >=2 random values rendered; distinct by hash of the trace"})
	register(&Property{ID: "C18", Level: "exploration", World: c18World, Replay: func(p *Plan) *Violation { return c18Exec(p, nil) },
		Worlds: map[string]int{"quick": 900, "thorough": 3000}, Batch: map[string]int{"quick": 1, "thorough": 12},
		Rule: "deterministic part: worlds = 2-4 runners over 1-2 generated programs (random built-ins, markup, commands, variables, counters), each with its own dynamic op list (steps, host writes, releases, snapshot/restore); one total order interleaves their creations and steps, and every n-th host callback (storer read, host function, command handler entry) of the running runner executes a burst of 1-3 steps of another runner in the middle of the call; each runner's full trace (elements, variables, side effects, snapshots) must equal its solo trace; non-trivial = >=1 mid-call burst; distinct by hash of the plan. Stress part (race mode, -race binary, real scheduler, fresh processes with cold parser caches): 4-16 goroutines create and drive the runners concurrently from the first instruction; no race report, every trace equals the sequential one"})
	register(&Property{ID: "C14", Level: "exploration", World: c14World, Replay: c14Replay,
		Worlds: map[string]int{"quick": 4000, "thorough": 10000}, Batch: map[string]int{"quick": 1, "thorough": 8},
		Rule: "two kinds of cases, both real-vs-real: (a) a history of 2-12 ParseMarkup calls on ONE LineParser value over lines assembled from text chunks (ASCII, multi-byte), escapes, open/close/close-all/self-closing markers with properties, replacement markers, character prefixes and failing lines (unterminated marker, bad property, unexpected close, EOF inside a string) - every result is compared with a fresh parser's; (b) a dialogue whose option bodies hold 0-4 such lines each, followed by shared lines: the shared lines' text and attributes must be identical whichever option was taken; non-trivial = >=2 attributes involved; distinct by hash of the lines / script"})
}

// capTB lets rapid.Check report into the harness instead of failing the test.
type capTB struct {
	failed bool
	msgs   []string
}

type capStop struct{}

func (c *capTB) Helper()                          {}
func (c *capTB) Name() string                     { return "sim" }
func (c *capTB) Logf(format string, args ...any)  {}
func (c *capTB) Log(args ...any)                  {}
func (c *capTB) Skipf(format string, args ...any) { panic(capStop{}) }
func (c *capTB) Skip(args ...any)                 { panic(capStop{}) }
func (c *capTB) SkipNow()                         { panic(capStop{}) }
func (c *capTB) Errorf(format string, args ...any) {
	c.failed = true
	c.msgs = append(c.msgs, fmt.Sprintf(format, args...))
}
func (c *capTB) Error(args ...any)                 { c.failed = true; c.msgs = append(c.msgs, fmt.Sprint(args...)) }
func (c *capTB) Fatalf(format string, args ...any) { c.Errorf(format, args...); panic(capStop{}) }
func (c *capTB) Fatal(args ...any)                 { c.Error(args...); panic(capStop{}) }
func (c *capTB) FailNow()                          { c.failed = true; panic(capStop{}) }
func (c *capTB) Fail()                             { c.failed = true }
func (c *capTB) Failed() bool                      { return c.failed }

type shardResult struct {
	Property   string           `json:"property"`
	Tier       string           `json:"tier"`
	Seed       uint64           `json:"seed"`
	Shard      int              `json:"shard"`
	RapidSeeds []uint64         `json:"rapid_seeds"`
	Worlds     int64            `json:"worlds"`
	Counters   map[string]int64 `json:"counters"`
	SetSizes   map[string]int   `json:"set_sizes"`
	Samples    []any            `json:"samples"`
	Violations []violationOut   `json:"violations"`
	SimNs      int64            `json:"sim_ns"`
	WallS      float64          `json:"wall_s"`
	HarnessErr string           `json:"harness_error,omitempty"`
	GoMaxProcs int              `json:"gomaxprocs"`
}

type violationOut struct {
	Clause string `json:"clause"`
	Replay string `json:"replay"`
	Note   string `json:"note,omitempty"`
}

// activity is what the watchdog looks at.
var (
	actStart atomic.Int64
	actName  atomic.Value
)

func beginActivity(name string) { actName.Store(name); actStart.Store(time.Now().UnixNano()) }
func endActivity()              { actStart.Store(0) }

func flagSet(name, value string) { flag.Set(name, value) }

var seenClauses = map[string]bool{}

// runRapid runs one rapid batch (seed and number of checks are taken from the rapid flags).
func runRapid(env *Env, label string, world func(tp *Tape) (*Plan, *Violation), addViolation func(*Plan, *Violation)) (harnessErr string) {
	var lastPlan *Plan
	var lastViol *Violation
	target := ""
	tb := &capTB{}
	func() {
		defer func() {
			if p := recover(); p != nil {
				if _, ok := p.(capStop); !ok {
					panic(p)
				}
			}
		}()
		rapid.Check(tb, func(rt *rapid.T) {
			tp := &Tape{t: rt}
			env.St.inc("worlds", 1)
			beginActivity(label + " world")
			plan, v := world(tp)
			endActivity()
			if worldLog != nil && plan != nil {
				fmt.Fprintf(worldLog, "%016x %v\n", hashJSON(plan), v == nil)
			}
			if v == nil {
				return
			}
			if target != "" && v.Clause != target {
				return // while shrinking, only the same clause counts
			}
			if seenClauses[v.Clause] {
				return // already reported from an earlier batch
			}
			target = v.Clause
			lastPlan, lastViol = plan, v
			rt.Fatalf("violation %s", v.Clause)
		})
	}()
	if lastViol != nil {
		seenClauses[lastViol.Clause] = true
		addViolation(lastPlan, lastViol)
	} else if tb.failed {
		return strings.Join(tb.msgs, "; ")
	}
	return ""
}

var worldLog *os.File

func TestSim(t *testing.T) {
	gT = t
	debug.SetGCPercent(gcPercent())
	journalFile = *fJournal
	if *fMode == "child" {
		runChild()
		return
	}
	if *fMode == "racechild" {
		runRaceChild()
		return
	}
	if *fMode == "probechild" {
		fmt.Print("PROBE-BEGIN\n" + processProbeText() + "PROBE-END\n")
		return
	}
	if *fReplay != "" {
		runReplay(t)
		return
	}
	if *fProp == "" {
		t.Skip("no -sim.prop")
	}
	prop := registry[*fProp]
	if prop == nil {
		fmt.Printf("HARNESS-ERROR unknown property %s\n", *fProp)
		os.Exit(2)
	}
	if *fMode == "rule" {
		fmt.Println("RULE " + prop.Rule)
		return
	}
	start := time.Now()
	env := &Env{Tier: *fTier, VerifSeed: *fSeed, Shard: *fShard, NShards: *fNShards, St: newStats(), Thorough: *fTier == "thorough"}
	gStats = env.St
	res := &shardResult{Property: prop.ID, Tier: *fTier, Seed: *fSeed, Shard: *fShard, GoMaxProcs: runtime.GOMAXPROCS(0)}
	if *fMode == "" {
		for _, p := range expectedProbes[prop.ID] {
			env.St.Counters["probe."+p] = 0
		}
	}

	finish := func() {
		if leakedWorlds > 0 {
			env.St.Counters["worlds_with_a_goroutine_of_the_code_under_test_left_blocked"] = leakedWorlds
		}
		res.Worlds = env.St.Counters["worlds"]
		res.Counters = env.St.Counters
		res.Samples = env.St.Samples
		res.SimNs = env.St.SimNs
		res.SetSizes = map[string]int{}
		res.WallS = time.Since(start).Seconds()
		if *fOut != "" {
			b, _ := json.MarshalIndent(res, "", " ")
			os.WriteFile(*fOut, b, 0o644)
			// distinct sets go to a side file so the driver can take the union over shards
			f, err := os.Create(*fOut + ".sets")
			if err == nil {
				names := make([]string, 0, len(env.St.Sets))
				for k := range env.St.Sets {
					names = append(names, k)
				}
				sort.Strings(names)
				for _, name := range names {
					for h := range env.St.Sets[name] {
						fmt.Fprintf(f, "%s %016x\n", name, h)
					}
				}
				f.Close()
			}
		} else {
			b, _ := json.MarshalIndent(res, "", " ")
			fmt.Println(string(b))
		}
	}
	rapidSeed := uint64(0)
	addViolation := func(plan *Plan, v *Violation) {
		// ops after the violating one cannot matter for plans executed op by op
		switch plan.Property {
		case "C01", "C03", "C06":
			if v.OpIndex >= 0 && v.OpIndex+1 < len(plan.Ops) {
				plan.Ops = plan.Ops[:v.OpIndex+1]
			}
		}
		if prop.Replay != nil && os.Getenv("VERIF_NO_STAGE2") == "" && !strings.HasSuffix(v.Clause, ".race") && !strings.HasSuffix(v.Clause, ".process-history") && !strings.HasSuffix(v.Clause, ".parallel-trace") && !strings.HasSuffix(v.Clause, ".process") {
			var rep *minReport
			plan, v, rep = minimisePlan(plan, v, prop.Replay, 30*time.Second)
			if plan.Extra == nil {
				plan.Extra = map[string]any{}
			}
			plan.Extra["minimisation_stage_two"] = rep
		}
		plan.Clause = v.Clause
		plan.Violation = v
		plan.VerifSeed, plan.Tier, plan.Shard, plan.RapidSeed = env.VerifSeed, env.Tier, env.Shard, rapidSeed
		path := writeReplay(plan)
		res.Violations = append(res.Violations, violationOut{Clause: v.Clause, Replay: path, Note: v.Note})
	}

	// watchdog: a single world (C05: a single load) that takes far longer than it ever should. While a stream is being
	// loaded (C05) that is the property's "terminates" clause; anywhere else it is harness trouble.
	go func() {
		for {
			time.Sleep(time.Second)
			limit := 180 * time.Second // a whole world; generous, the machine may be busy
			if prop.ID == "C05" {
				limit = 120 * time.Second // one load of at most a few KB (normally well under 10 ms); confirmed by the driver before it counts
			}
			if s := actStart.Load(); s != 0 && time.Now().UnixNano()-s > int64(limit) {
				name, _ := actName.Load().(string)
				fmt.Printf("WATCHDOG %s exceeded %v\n", name, limit)
				os.Exit(3)
			}
		}
	}()

	if *fLog != "" {
		worldLog, _ = os.Create(*fLog)
		defer worldLog.Close()
	}
	flag.Set("rapid.nofailfile", "true")
	flag.Set("rapid.shrinktime", "20s")

	switch *fMode {
	case "procs":
		worlds := 12
		if env.Thorough {
			worlds = 60
		}
		if *fWorlds > 0 {
			worlds = *fWorlds
		}
		rapidSeed = mix64(mix64(env.VerifSeed, hashStr("C09procs")), uint64(env.Shard)) & ((1 << 62) - 1)
		flag.Set("rapid.seed", fmt.Sprint(rapidSeed|1))
		c09Procs(env, worlds, addViolation)
		finish()
		return
	case "race":
		raceParent(env, prop.ID, addViolation)
		finish()
		return
	}

	if *fMode == "batches" {
		n := prop.Batch[env.Tier]
		if n == 0 {
			n = 1
		}
		fmt.Printf("BATCHES %d\n", n)
		return
	}
	if prop.Fixed != nil && *fBatch <= 0 {
		for _, plan := range prop.Fixed(env) {
			if plan != nil && plan.Violation != nil {
				addViolation(plan, plan.Violation)
			}
		}
	}

	if prop.World != nil {
		worlds := prop.Worlds[env.Tier]
		if *fWorlds > 0 {
			worlds = *fWorlds
		}
		batches := prop.Batch[env.Tier]
		if batches == 0 {
			batches = 1
		}
		flag.Set("rapid.checks", fmt.Sprint(worlds))
		for b := 0; b < batches && len(res.Violations) < 3; b++ {
			if *fBatch >= 0 && b != *fBatch {
				continue
			}
			rs := mix64(mix64(env.VerifSeed, hashStr(prop.ID)), uint64(env.Shard)*1000+uint64(b))
			rs &= (1 << 62) - 1
			if rs == 0 {
				rs = 1
			}
			rapidSeed = rs
			res.RapidSeeds = append(res.RapidSeeds, rs)
			flag.Set("rapid.seed", fmt.Sprint(rs))
			if herr := runRapid(env, prop.ID, func(tp *Tape) (*Plan, *Violation) { return prop.World(tp, env) }, addViolation); herr != "" {
				res.HarnessErr = herr
			}
		}
	}
	if (prop.ID == "C14" || prop.ID == "C18") && *fMode == "" && len(res.Violations) == 0 {
		// this process has by now parsed and run thousands of scripts: what it computes for a fixed set of
		// inputs must be what a process that has done nothing yet computes for them
		if plan, v := processProbe(env, prop.ID); v != nil {
			addViolation(plan, v)
		}
	}
	finish()
	if res.HarnessErr != "" {
		fmt.Printf("HARNESS-ERROR %s\n", res.HarnessErr)
		os.Exit(2)
	}
}

func loadPlanFile(path string) *Plan {
	b, err := os.ReadFile(path)
	if err != nil {
		fmt.Printf("HARNESS-ERROR cannot read plan file: %v\n", err)
		os.Exit(2)
	}
	var plan Plan
	if err := json.Unmarshal(b, &plan); err != nil {
		fmt.Printf("HARNESS-ERROR cannot parse plan file: %v\n", err)
		os.Exit(2)
	}
	return &plan
}

// runChild: a fresh process computes the trace of a C09 plan and prints its hash.
func runChild() {
	plan := loadPlanFile(*fReplay)
	tr, _ := c09Trace(plan, false, nil, nil)
	fmt.Printf("TRACEHASH %016x\n", hashStr(tr))
}

func runReplay(t *testing.T) {
	b, err := os.ReadFile(*fReplay)
	if err != nil {
		fmt.Printf("HARNESS-ERROR cannot read replay file: %v\n", err)
		os.Exit(2)
	}
	var plan Plan
	if err := json.Unmarshal(b, &plan); err != nil {
		fmt.Printf("HARNESS-ERROR cannot parse replay file: %v\n", err)
		os.Exit(2)
	}
	prop := registry[plan.Property]
	if prop == nil || prop.Replay == nil {
		fmt.Printf("HARNESS-ERROR no replay for property %q\n", plan.Property)
		os.Exit(2)
	}
	v := prop.Replay(&plan)
	out := map[string]any{"property": plan.Property, "recorded_clause": plan.Clause}
	if v == nil {
		out["reproduced"] = false
		bb, _ := json.MarshalIndent(out, "", " ")
		fmt.Println(string(bb))
		fmt.Printf("REPLAY property=%s clause=%s result=held\n", plan.Property, plan.Clause)
		return
	}
	out["reproduced"] = v.Clause == plan.Clause
	out["violation"] = v
	bb, _ := json.MarshalIndent(out, "", " ")
	fmt.Println(string(bb))
	fmt.Printf("REPLAY property=%s clause=%s result=violated observed_clause=%s\n", plan.Property, plan.Clause, v.Clause)
	fmt.Printf("VIOLATION property=%s replay=%s\n", plan.Property, *fReplay)
	os.Exit(1)
}

// gcPercent: the harness allocates a lot of short-lived garbage (parses); 200 trades some speed for memory.
func gcPercent() int {
	if v := os.Getenv("VERIF_GOGC"); v != "" {
		var n int
		fmt.Sscanf(v, "%d", &n)
		if n > 0 {
			return n
		}
	}
	return 200
}
