package zz_verif_sim

// Stream faults on the reader seam, and the two model-free judges of a byte
// stream: the independent syntax verdict (fresh lexer + parser of /repo with a
// counting error listener) and the indentation-token balance of the lexer.

import (
	"fmt"
	"strings"

	"github.com/antlr4-go/antlr/v4"

	"github.com/remieven/ysgo/internal/parser"
)

type countingListener struct {
	*antlr.DefaultErrorListener
	n     int
	first string
}

func (l *countingListener) SyntaxError(_ antlr.Recognizer, _ interface{}, line, column int, msg string, _ antlr.RecognitionException) {
	if l.n == 0 {
		l.first = fmt.Sprintf("line %d:%d %s", line, column, msg)
	}
	l.n++
}

type verdictT struct {
	Valid  bool   `json:"valid"`
	Errors int    `json:"errors"`
	Panic  string `json:"panic,omitempty"`
	First  string `json:"first,omitempty"`
	Mixed  bool   `json:"mixed,omitempty"`
}

// verdict judges one reader's bytes independently of internal/tree.
func verdict(b []byte) (v verdictT) {
	defer func() {
		if p := recover(); p != nil {
			v.Valid = false
			v.Panic = fmt.Sprint(p)
			v.Mixed = strings.Contains(v.Panic, "tabs and spaces")
		}
	}()
	if len(b) == 0 {
		return verdictT{Valid: false, Errors: 1, First: "empty input"}
	}
	l := &countingListener{DefaultErrorListener: antlr.NewDefaultErrorListener()}
	lexer := parser.NewYarnSpinnerLexer(antlr.NewInputStream(string(b)))
	lexer.RemoveErrorListeners()
	lexer.AddErrorListener(l)
	p := parser.NewYarnSpinnerParser(antlr.NewCommonTokenStream(lexer, antlr.LexerDefaultTokenChannel))
	p.RemoveErrorListeners()
	p.AddErrorListener(l)
	p.Dialogue()
	return verdictT{Valid: l.n == 0, Errors: l.n, First: l.first}
}

// tokenBalance pulls tokens until the first EOF and checks the indentation invariants.
// ok=false with skipped=true when the lexer refuses the input (mixed indentation).
func tokenBalance(b []byte) (problem string, skipped bool, indents int) {
	defer func() {
		if p := recover(); p != nil {
			s := fmt.Sprint(p)
			if strings.Contains(s, "tabs and spaces") {
				skipped = true
				problem = ""
				return
			}
			problem = "lexer panicked: " + s
		}
	}()
	if len(b) == 0 {
		return "", true, 0
	}
	l := &countingListener{DefaultErrorListener: antlr.NewDefaultErrorListener()}
	lexer := parser.NewYarnSpinnerLexer(antlr.NewInputStream(string(b)))
	lexer.RemoveErrorListeners()
	lexer.AddErrorListener(l)
	open := 0
	limit := 3*len(b) + 16
	for i := 0; i < limit; i++ {
		t := lexer.NextToken()
		if t == nil {
			return fmt.Sprintf("nil token at position %d", i), false, indents
		}
		switch t.GetTokenType() {
		case parser.YarnSpinnerLexerINDENT:
			open++
			indents++
		case parser.YarnSpinnerLexerDEDENT:
			open--
			if open < 0 {
				return fmt.Sprintf("DEDENT without a matching INDENT at token %d", i), false, indents
			}
		case antlr.TokenEOF:
			if open != 0 {
				return fmt.Sprintf("%d INDENT tokens still open at EOF", open), false, indents
			}
			// a single EOF ends the stream: whatever follows must be EOF again, never a real token
			for j := 0; j < 3; j++ {
				if t2 := lexer.NextToken(); t2 == nil || t2.GetTokenType() != antlr.TokenEOF {
					return "a token follows EOF", false, indents
				}
			}
			return "", false, indents
		}
	}
	return "no EOF token within the token budget", false, indents
}

// streamCase is one faulted delivery of a script.
type streamCase struct {
	Kind    string       `json:"kind"`
	Readers []ReaderSpec `json:"readers"`
	Seed    string       `json:"seed"`
	ReadErr bool         `json:"read_err,omitempty"`
	At      int          `json:"at,omitempty"`
}

func oneReader(b []byte) []ReaderSpec { return []ReaderSpec{readerSpecOf(b)} }

// faultedStreams enumerates the stream faults of one base script. Exhaustive
// parts (every truncation offset, every single-byte deletion) are strided only
// above maxExhaustive bytes; sampled parts draw from rng.
func faultedStreams(base []byte, rng *splitmix, maxExhaustive int, samples int, emit func(streamCase) bool) (exhaustive bool) {
	n := len(base)
	stride, phase := 1, 0
	exhaustive = true
	if n > maxExhaustive {
		stride = (n + maxExhaustive - 1) / maxExhaustive
		phase = rng.intn(stride)
		exhaustive = false
	}
	// every truncation offset
	for k := phase; k < n; k += stride {
		if !emit(streamCase{Kind: "truncate", Readers: oneReader(base[:k]), Seed: "a1", At: k}) {
			return
		}
	}
	// every single-byte deletion
	for k := phase; k < n; k += stride {
		b := append(append([]byte{}, base[:k]...), base[k+1:]...)
		if !emit(streamCase{Kind: "delete_byte", Readers: oneReader(b), Seed: "a1", At: k}) {
			return
		}
	}
	interesting := []byte("<>{}#-=\"\\/ \t\n\r:$()[],.!|&^%*+0aZ\x00\xff\xc3")
	for s := 0; s < samples && n > 0; s++ {
		k := rng.intn(n)
		switch rng.intn(9) {
		case 0: // byte flip to an interesting byte
			b := append([]byte{}, base...)
			b[k] = interesting[rng.intn(len(interesting))]
			if !emit(streamCase{Kind: "flip_byte", Readers: oneReader(b), Seed: "a1", At: k}) {
				return
			}
		case 1: // bit flip
			b := append([]byte{}, base...)
			b[k] ^= 1 << uint(rng.intn(8))
			if !emit(streamCase{Kind: "flip_bit", Readers: oneReader(b), Seed: "a1", At: k}) {
				return
			}
		case 2: // insertion
			ins := [][]byte{[]byte("<<"), []byte(">>"), []byte("{"), []byte("}"), []byte("\n"), []byte("\t"), []byte(" "), []byte("->"), []byte("==="), []byte("---"), []byte("#"), []byte("\""), []byte("//"), []byte("<<if "), []byte("<<endif>>"), []byte("\\")}
			x := ins[rng.intn(len(ins))]
			b := append(append(append([]byte{}, base[:k]...), x...), base[k:]...)
			if !emit(streamCase{Kind: "insert", Readers: oneReader(b), Seed: "a1", At: k}) {
				return
			}
		case 3, 4: // line-level mutation
			lines := strings.SplitAfter(string(base), "\n")
			if len(lines) < 2 {
				continue
			}
			i, j := rng.intn(len(lines)), rng.intn(len(lines))
			var out []string
			kind := ""
			switch rng.intn(5) {
			case 4:
				// the same width written with another recipe: k>=9 blanks as a tab and k-8 blanks, two or more
				// tabs with the last one as 8 blanks - tabs AND spaces in one indentation, at the block's own level
				kind = "mix_same_width"
				out = append([]string{}, lines...)
				for tries := 0; tries < len(lines); tries++ {
					k := (i + tries) % len(lines)
					body := strings.TrimLeft(out[k], " \t")
					ws := out[k][:len(out[k])-len(body)]
					if strings.TrimSpace(body) == "" {
						continue
					}
					if !strings.Contains(ws, "\t") && len(ws) >= 9 {
						out[k] = "\t" + ws[8:] + body
						i = k
						break
					}
					if !strings.Contains(ws, " ") && len(ws) >= 2 {
						out[k] = ws[:len(ws)-1] + "        " + body
						i = k
						break
					}
				}
			case 0:
				kind = "swap_lines"
				out = append([]string{}, lines...)
				out[i], out[j] = out[j], out[i]
			case 1:
				kind = "duplicate_line"
				out = append(append(append([]string{}, lines[:i+1]...), lines[i]), lines[i+1:]...)
			case 2:
				kind = "drop_line"
				out = append(append([]string{}, lines[:i]...), lines[i+1:]...)
			case 3:
				kind = "reindent_line"
				out = append([]string{}, lines...)
				pre := []string{" ", "\t", "    ", " \t", "\t ", "  "}[rng.intn(6)]
				if rng.chance(40) {
					out[i] = strings.TrimLeft(out[i], " \t")
				} else {
					out[i] = pre + out[i]
				}
			}
			if !emit(streamCase{Kind: kind, Readers: oneReader([]byte(strings.Join(out, ""))), Seed: "a1", At: i}) {
				return
			}
		case 5: // read error at an offset
			rs := readerSpecOf(base)
			rs.ErrAt = k + 1
			if !emit(streamCase{Kind: "read_error", Readers: []ReaderSpec{rs}, Seed: "a1", ReadErr: true, At: k}) {
				return
			}
		case 6: // arbitrary byte-level split over 2-3 readers
			a, c := rng.intn(n+1), rng.intn(n+1)
			if a > c {
				a, c = c, a
			}
			rs := []ReaderSpec{readerSpecOf(base[:a]), readerSpecOf(base[a:c])}
			if rng.chance(50) {
				rs = append(rs, readerSpecOf(base[c:]))
			} else {
				rs[1] = readerSpecOf(base[a:])
			}
			if !emit(streamCase{Kind: "byte_split", Readers: rs, Seed: "a1", At: a}) {
				return
			}
		case 7: // seed strings
			seeds := []string{"", "0", "zzzzzzzzzzzzzzzzzzzzzzzzz", "abc123", "A", "a b", "é", "seed!", "-1", "9999999999999999999999", "000", "z", "1y2p0ij32e8e7"}
			seed := seeds[rng.intn(len(seeds))]
			if rng.chance(60) {
				// a random seed of random length, mostly over the valid alphabet
				alphabet := "0123456789abcdefghijklmnopqrstuvwxyz"
				if rng.chance(15) {
					alphabet += "A_ -.\x00é"
				}
				ln := 1 + rng.intn(40)
				b := make([]byte, ln)
				for i := range b {
					b[i] = alphabet[rng.intn(len(alphabet))]
				}
				seed = string(b)
			}
			if !emit(streamCase{Kind: "seed", Readers: oneReader(base), Seed: seed}) {
				return
			}
		case 8: // the fully corrupted end of the scale
			ln := rng.intn(65)
			b := make([]byte, ln)
			for i := range b {
				if rng.chance(60) {
					b[i] = interesting[rng.intn(len(interesting))]
				} else {
					b[i] = byte(rng.intn(256))
				}
			}
			if !emit(streamCase{Kind: "random_bytes", Readers: oneReader(b), Seed: "a1"}) {
				return
			}
		}
	}
	// a split exactly at node boundaries: every reader holds whole nodes, the input stays valid
	if parts := splitAtNodeEnds(base); len(parts) > 1 {
		var rs []ReaderSpec
		for _, p := range parts {
			rs = append(rs, readerSpecOf(p))
		}
		if !emit(streamCase{Kind: "node_split", Readers: rs, Seed: "a1"}) {
			return
		}
	}
	// sizes: one line (text, comment or command) of several KB, its length near a power of two or far
	// beyond, and an input of thousands of lines. Whether the result is valid is the verdict's call.
	if i := strings.Index(string(base), "---\n"); i >= 0 && samples > 0 {
		at := i + 4
		target := []int{4096, 4096, 8192, 8192, 16384, 16384, 16384, 65536}[rng.intn(8)] + rng.intn(17) - 8
		if rng.chance(25) {
			target = 3000 + rng.intn(30000)
		}
		open, closing := []string{"PAD", "// pad", "<<c0 pad", "PAD {1} #tag"}[rng.intn(4)], ""
		if strings.HasPrefix(open, "<<") {
			closing = ">>"
		}
		var sb strings.Builder
		sb.WriteString(open)
		words := []string{" x", " hello", " é", " 日本", " 12", " a-b"}
		for sb.Len() < target-8 {
			sb.WriteString(words[rng.intn(len(words))])
		}
		for sb.Len()+len(closing) < target {
			sb.WriteString("y")
		}
		sb.WriteString(closing + "\n")
		b := append(append(append([]byte{}, base[:at]...), sb.String()...), base[at:]...)
		if !emit(streamCase{Kind: "long_line", Readers: oneReader(b), Seed: "a1", At: target}) {
			return
		}
		if rng.chance(25) {
			nl := 500 + rng.intn(4000)
			var mb strings.Builder
			for k := 0; k < nl; k++ {
				fmt.Fprintf(&mb, "PAD %d\n", k)
			}
			b := append(append(append([]byte{}, base[:at]...), mb.String()...), base[at:]...)
			if !emit(streamCase{Kind: "many_lines", Readers: oneReader(b), Seed: "a1", At: nl}) {
				return
			}
		}
	}
	// degenerate but well-defined inputs: whatever the loader makes of them, it is a runner or an error
	if samples > 0 {
		nl := "\n"
		var b []byte
		kind := ""
		switch rng.intn(10) {
		case 8, 9:
			// numbers at the edge of what a float64 holds: well-formed literals all the same
			lit := []string{"1" + strings.Repeat("0", 309), strings.Repeat("9", 400), "0." + strings.Repeat("0", 400) + "1", "1" + strings.Repeat("0", 308), "179769313486231580793728971405303415079934132710037826936173778980444968292764750946649017977587207096330286416692887910946555547851940402630657488671505820681908902000708383676273854845817711531764475730270069855571366959622842914819860834936475292719074168444365510704342711559699508093042880177904174497792"}[rng.intn(5)]
			kind, b = "number_literal_at_the_edge_of_float64", append(append([]byte{}, base...), []byte(nl+"title: Zz"+nl+"---"+nl+"<<set $zz = "+lit+">>"+nl+"{"+lit+" + 1}"+nl+"===")...)
		case 6, 7:
			kind, b = "file_tags_first", append([]byte("#version:2 #draft"+nl+"#other"+nl), base...)
		case 0:
			kind, b = "empty_body_node", append(append([]byte{}, base...), []byte(nl+"title: Zz"+nl+"---"+nl+"===")...)
		case 1:
			kind, b = "duplicate_node", append(append(append([]byte{}, base...), []byte(nl)...), base...)
		case 2:
			kind, b = "garbage_after_last_node", append(append([]byte{}, base...), []byte(nl+"garbage here"+nl)...)
		case 3:
			kind, b = "only_file_tags", []byte("#tag #other"+nl)
		case 4:
			kind, b = "header_only", []byte("title: Zz"+nl)
		case 5:
			kind, b = "untitled_node", []byte("tags: x"+nl+"---"+nl+"hi"+nl+"==="+nl)
		}
		if !emit(streamCase{Kind: kind, Readers: oneReader(b), Seed: "a1"}) {
			return
		}
		if rng.chance(20) {
			if !emit(streamCase{Kind: "zero_readers", Readers: []ReaderSpec{}, Seed: "a1"}) {
				return
			}
		}
		if rng.chance(8) {
			// more than a mebibyte of blank lines, then something that is not Yarn: a loader that stops reading
			// early would never see it (blank lines cost the lexer one token)
			far := append(append(append([]byte{}, base...), []byte(strings.Repeat(nl, 1<<20+rng.intn(1<<16)))...), []byte("garbage here"+nl)...)
			if !emit(streamCase{Kind: "garbage_after_a_mebibyte", Readers: oneReader(far), Seed: "a1"}) {
				return
			}
		}
	}
	emit(streamCase{Kind: "empty", Readers: oneReader(nil), Seed: "a1"})
	return exhaustive
}

// mixedIndentInBody is an oracle of its own for one clause of C05 ("indentation mixing tabs and spaces is
// reported as an error"): it reads the bytes, not the lexer. It answers true only where the rule certainly
// applies - a line between a --- line and the next === line that has content other than a comment and whose
// leading white space contains both a tab and a space.
func mixedIndentInBody(b []byte) (bool, int) {
	inBody := false
	// a line ends at \r\n, \n or a lone \r (the lexer's NEWLINE is [\r\n]+)
	text := strings.ReplaceAll(strings.ReplaceAll(string(b), "\r\n", "\n"), "\r", "\n")
	for n, line := range strings.Split(text, "\n") {
		trimmed := strings.TrimLeft(line, " \t")
		switch {
		case !inBody:
			if line == "---" {
				inBody = true
			}
			continue
		case trimmed == "===" || line == "===":
			inBody = false
			continue
		}
		if trimmed == "" || strings.HasPrefix(trimmed, "//") {
			continue
		}
		ws := line[:len(line)-len(trimmed)]
		if strings.Contains(ws, " ") && strings.Contains(ws, "\t") {
			return true, n + 1
		}
	}
	return false, 0
}

func validSeed(s string) bool {
	for _, r := range s {
		if !((r >= '0' && r <= '9') || (r >= 'a' && r <= 'z')) {
			return false
		}
	}
	return true
}

// splitAtNodeEnds cuts a script after every line that consists of === (the end of a node).
func splitAtNodeEnds(b []byte) [][]byte {
	var parts [][]byte
	start := 0
	lines := strings.SplitAfter(string(b), "\n")
	pos := 0
	for _, l := range lines {
		pos += len(l)
		if strings.TrimRight(l, "\r\n") == "===" && pos < len(b) {
			rest := strings.TrimSpace(string(b[pos:]))
			if rest != "" && !strings.HasPrefix(rest, "//") {
				parts = append(parts, b[start:pos])
				start = pos
			}
		}
	}
	if start == 0 {
		return nil
	}
	return append(parts, b[start:])
}
