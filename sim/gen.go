package zz_verif_sim

// Program generator. Everything is drawn from the tape; a GenCfg selects the
// language features a property's worlds use (swarm style: each world first
// draws which features are on and how heavy).

import (
	"fmt"
	"strings"
)

// HandlerSpec describes one command handler the host registers.
type HandlerSpec struct {
	Name   string   `json:"name"`
	Shape  string   `json:"shape"`  // raw_prefilled raw_buffered raw_unbuffered conv_none conv_error conv_chan conv_rochan
	Params []string `json:"params"` // Go parameter kinds: int, int8, float64, float32, string, bool
	Vari   string   `json:"vari,omitempty"`
}

var handlerShapes = []string{"raw_prefilled", "raw_buffered", "raw_unbuffered", "conv_none", "conv_error", "conv_chan", "conv_rochan"}

func yarnKindOfGo(k string) byte {
	switch k {
	case "string", "MyString":
		return 's'
	case "bool", "MyBool":
		return 'b'
	}
	return 'n'
}

type GenCfg struct {
	MaxNodes int
	MaxStmts int
	MaxDepth int
	MaxTotal int // budget of generated statements per program (0 = 40)
	// weights of statement kinds
	WLine, WOptions, WIf, WSet, WDeclare, WJump, WJumpE, WStop, WCall, WCommand, WWait, WFault int
	NVars                                                                                      [3]int // numbers, booleans, strings
	NJVars                                                                                     int    // string variables that hold node titles
	Probes                                                                                     bool   // pn/pb/ps/pn2 host functions in expressions
	Visited                                                                                    bool   // visited()/visited_count() in expressions
	MoreBuiltins                                                                               int    // added to the percentages with which built-ins (and round_places among them) are drawn
	ArgExprPct                                                                                 int    // chance that a command argument is an {expression} (default 35)
	ReregInArgs                                                                                bool   // C10: an argument of a command may be prr("cmd", v): the host replaces that command's handler while the statement is evaluated
	HostPanics                                                                                 bool   // model-free C12 worlds: <<call pboom(k)>> - a host function that panics with a value of its own
	StopArgs                                                                                   bool   // model-free C12 worlds: <<stop now>>, <<stop {1 + 1}>>
	ExprOnlyLines                                                                              bool   // model-free worlds: some lines are nothing but {an expression}
	NoStringSelfGrowth                                                                         bool   // model-free worlds: no string variable on the right of a string assignment
	NoLongLines                                                                                bool   // C05/C20: every base script is loaded hundreds of times - long lines come as stream cases there
	HostFnWrites                                                                               bool   // <<call pw("n0", e)>>: a host function that writes a variable while the script runs
	BigRoundsPct                                                                               int    // share of hub worlds whose loop runs 126-300 rounds
	Random                                                                                     bool   // dice/random/random_range (C09 only)
	ExprDepth                                                                                  int
	InlinePct                                                                                  int // chance of inline expressions in a line
	TagPct                                                                                     int
	CondPct                                                                                    int // chance an option carries a condition
	Handlers                                                                                   []HandlerSpec
	EnterProbe                                                                                 bool // <<call enter("N")>> first in every node (C11)
	CountLines                                                                                 bool // lines render every node's counters (C11)
	IllTypedSets                                                                               int  // percentage of set statements drawn without regard to types (C03)
	Faults                                                                                     int  // max fault sites (C06)
	MarkupLines                                                                                bool // C14: lines carry markup chunks
	WaitVals                                                                                   []float64
	NonASCII                                                                                   bool
	NoDeclarePrelude                                                                           bool
	TrackingPct                                                                                int
	VarLines                                                                                   bool // C03: lines render the pool variables
	Builtins                                                                                   bool // numeric/conversion built-ins (model-free worlds only: the model does not know them)
}

type gen struct {
	tp        *Tape
	cfg       *GenCfg
	titles    []string
	lineSeq   int
	faults    int
	total     int
	outlier   string // one size dimension blown up in this world ("" = none): thresholds must not hide behind small worlds
	bigRounds bool   // the hub loop of this world runs 130-300 rounds (counters beyond 127 / 255)
	suffix    string // appended to every variable name of this world: the process sees thousands of distinct names
	vars      [3][]string
	jvars     []string
}

var wordPool = []string{"hello", "the", "cat", "sat", "on", "a", "mat", "1", "x", "ok", "Zed", "don't", "wait", "what", "é", "日本", "über", "so", "if", "set", "and", "5.5", "a-b", "q?", "yes!", "(hm)", "50%", "a,b", "u_v", "$9"}

func (g *gen) word() string {
	n := len(wordPool)
	if !g.cfg.NonASCII {
		// indices of ascii-only words are kept stable: filter
		i := g.tp.Int(0, n-1, "word")
		w := wordPool[i]
		for _, c := range w {
			if c > 127 {
				return "w" + fmt.Sprint(i)
			}
		}
		return w
	}
	return wordPool[g.tp.Int(0, n-1, "word")]
}

var titlePool = []string{"Start", "N1", "N2", "Shop", "End_1", "n", "Übung", "Node5", "a1", "Z"}

// drawOutlier decides (in ~8 % of the worlds) which one size dimension goes far beyond its usual bound.
func (g *gen) drawOutlier() {
	if g.tp.Chance(8, "outlier") {
		g.outlier = []string{"options", "elseifs", "tags", "inlines", "nodes", "words", "stmts", "rounds", "longline"}[g.tp.Int(0, 8, "outlierkind")]
	}
	if g.tp.Chance(40, "varsuffix") {
		g.suffix = fmt.Sprintf("_%d", g.tp.Int(0, 999999, "varsuffixn"))
	}
}

func (g *gen) genTitles() {
	g.drawOutlier()
	n := g.tp.Int(1, g.cfg.MaxNodes, "nodes")
	if g.outlier == "nodes" {
		n = g.tp.Int(9, 14, "manynodes")
	}
	perm := g.tp.Int(0, 5, "titleperm")
	for i := 0; i < n; i++ {
		t := titlePool[(i+perm)%len(titlePool)]
		if i >= len(titlePool) {
			t = fmt.Sprintf("Extra%d", i)
		}
		if !g.cfg.NonASCII && t == "Übung" {
			t = "Ubung"
		}
		g.titles = append(g.titles, t)
	}
}

func (g *gen) program() *Program {
	g.genTitles()
	kinds := []string{"n", "b", "s"}
	for k := 0; k < 3; k++ {
		for i := 0; i < g.cfg.NVars[k]; i++ {
			g.vars[k] = append(g.vars[k], fmt.Sprintf("%s%d%s", kinds[k], i, g.suffix))
		}
	}
	for i := 0; i < g.cfg.NJVars; i++ {
		g.jvars = append(g.jvars, fmt.Sprintf("j%d%s", i, g.suffix))
	}
	p := &Program{}
	for i, t := range g.titles {
		n := &Node{Title: t}
		if g.tp.Chance(g.cfg.TrackingPct, "tracking") {
			n.Tracking = []string{"never", "always", "never", "always", "default", "Always", "yes", "sometimes"}[g.tp.Int(0, 7, "trackkind")] // only "never" switches counting off
		}
		if g.tp.Chance(15, "extrahdr") {
			n.Extra = append(n.Extra, [2]string{"tags", "foo bar"})
			if g.tp.Chance(40, "extrahdr2") {
				n.Extra = append(n.Extra, [2]string{"position", "12,34"})
			}
			n.TitlePos = g.tp.Int(0, len(n.Extra), "titlepos")
		}
		var body []*Stmt
		if g.cfg.EnterProbe {
			body = append(body, &Stmt{K: sCall, E: &Expr{K: eCall, S: "enter", A: []*Expr{{K: eStr, S: t}}}})
		}
		if i == 0 && !g.cfg.NoDeclarePrelude {
			body = append(body, g.prelude()...)
		}
		body = append(body, g.body(0)...)
		n.Body = body
		p.Nodes = append(p.Nodes, n)
	}
	if !g.cfg.EnterProbe && g.tp.Chance(6, "emptynode") {
		// a node with an EMPTY body, reached by redirecting one of the jumps: entering it ends the dialogue
		var jumps []*Stmt
		for _, n := range p.Nodes {
			walkStmts(n.Body, func(s *Stmt) {
				if s.K == sJump && s.Target != "Nowhere" {
					jumps = append(jumps, s)
				}
			})
		}
		if len(jumps) > 0 {
			jumps[g.tp.Int(0, len(jumps)-1, "emptynodejump")].Target = "EmptyNode"
			p.Nodes = append(p.Nodes, &Node{Title: "EmptyNode"})
			g.titles = append(g.titles, "EmptyNode")
		}
	}
	return p
}

// prelude declares every pool variable so that fault-free worlds never read an
// unknown variable.
func (g *gen) prelude() []*Stmt {
	var out []*Stmt
	for _, v := range g.vars[0] {
		out = append(out, &Stmt{K: sDeclare, Var: v, E: &Expr{K: eNum, N: float64(g.tp.Int(0, 5, "initn"))}, Spell: g.tp.Int(0, 1, "sp")})
	}
	for _, v := range g.vars[1] {
		out = append(out, &Stmt{K: sDeclare, Var: v, E: &Expr{K: eBool, B: g.tp.Bool("initb")}, Spell: g.tp.Int(0, 1, "sp")})
	}
	for _, v := range g.vars[2] {
		out = append(out, &Stmt{K: sDeclare, Var: v, E: &Expr{K: eStr, S: g.strLit()}, Spell: g.tp.Int(0, 1, "sp")})
	}
	for _, v := range g.jvars {
		out = append(out, &Stmt{K: sDeclare, Var: v, E: &Expr{K: eStr, S: g.titles[g.tp.Int(0, len(g.titles)-1, "initj")]}})
	}
	return out
}

var strPool = []string{"a", "", "bc", "x y", "Zed", "7", "é", "true", "q-r"}

func (g *gen) strLit() string {
	i := g.tp.Int(0, len(strPool)-1, "strlit")
	s := strPool[i]
	if !g.cfg.NonASCII && s == "é" {
		return "e"
	}
	return s
}

func (g *gen) body(depth int) []*Stmt {
	max := g.cfg.MaxStmts - depth
	if max < 1 {
		max = 1
	}
	n := g.tp.Int(0, max, "nstmts")
	budget := g.cfg.MaxTotal
	if budget == 0 {
		budget = 40
	}
	if g.outlier == "stmts" && depth == 0 && g.tp.Chance(40, "manystmts") {
		n = g.tp.Int(9, 20, "nmanystmts") // a long flat body
		budget += 30
	}
	var out []*Stmt
	for i := 0; i < n; i++ {
		if g.total >= budget {
			break
		}
		g.total++
		s := g.stmt(depth)
		if s == nil {
			continue
		}
		if s.K == sOptions && len(out) > 0 && out[len(out)-1].K == sOptions {
			// two adjacent groups would be one group in the text: separate them
			out = append(out, g.line())
		}
		out = append(out, s)
	}
	return out
}

func (g *gen) stmt(depth int) *Stmt {
	c := g.cfg
	w := []int{c.WLine, c.WOptions, c.WIf, c.WSet, c.WDeclare, c.WJump, c.WJumpE, c.WStop, c.WCall, c.WCommand, c.WWait, 0}
	if c.Faults > g.faults {
		w[11] = c.WFault
	}
	if depth >= c.MaxDepth {
		w[1], w[2] = 0, 0
	}
	if len(g.cfg.Handlers) == 0 {
		w[9] = 0
	}
	if len(g.vars[0])+len(g.vars[1])+len(g.vars[2]) == 0 {
		w[3], w[4] = 0, 0
	}
	if len(g.jvars) == 0 {
		w[6] = w[6] / 2
	}
	if !c.Probes {
		w[8] = 0
	}
	switch g.tp.Pick(w, "stmtkind") {
	case 0:
		return g.line()
	case 1:
		return g.options(depth)
	case 2:
		return g.ifStmt(depth)
	case 3:
		return g.set()
	case 4:
		return g.declare()
	case 5:
		return &Stmt{K: sJump, Target: g.jumpTarget()}
	case 6:
		return g.jumpE()
	case 7:
		st := &Stmt{K: sStop}
		if g.cfg.StopArgs && g.tp.Chance(35, "stopargs") {
			// a stop spelled with arguments: whatever a runner makes of it, an end it reports is final (C12 only)
			st.Spell = g.tp.Int(1, 3, "stopspell")
		}
		return st
	case 8:
		return g.callStmt()
	case 9:
		return g.command()
	case 10:
		return g.wait()
	case 11:
		g.faults++
		return g.faultStmt()
	}
	return g.line()
}

// unknownFn: the name of a function nobody registered - mostly a far-off one, sometimes one that is one or two
// edits away from registered names, from several of them at the same distance (rand: random/round; dnc: inc/dec;
// px: the host's pn/pb/ps/pv): whatever an error message makes of the neighbourhood must not depend on chance.
func (g *gen) unknownFn() string {
	if g.tp.Chance(35, "nearfn") {
		pool := []string{"rand", "dnc", "px", "roun", "strin", "nmber", "flor", "cel", "dic", "ec", "randm", "visitd", "decimel", "boo", "integr", "pnm"}
		return pool[g.tp.Int(0, len(pool)-1, "nearfnname")]
	}
	return "nofunc"
}

// faultStmt is a statement-level fault site (C06): valid syntax, must fail at run time.
func (g *gen) faultStmt() *Stmt {
	switch g.tp.Int(0, 9, "faultstmt") {
	case 0:
		if g.tp.Chance(25, "nearcmd") {
			return &Stmt{K: sCommand, Cmd: []string{"c1", "shak", "iffi", "settl", "wai", "stp"}[g.tp.Int(0, 5, "nearcmdname")], Args: []CmdArg{{Word: "1"}}}
		}
		return &Stmt{K: sCommand, Cmd: longNames("nocmd")[g.tp.Pick([]int{5, 1, 1, 1}, "nocmdname")], Args: []CmdArg{{Word: "1"}}}
	case 1:
		return &Stmt{K: sJump, Target: "Nowhere"}
	case 2:
		return &Stmt{K: sJumpE, E: g.bin("+", numLit(1), numLit(1))}
	case 3:
		return &Stmt{K: sJumpE, E: &Expr{K: eStr, S: longNames("no such node")[g.tp.Pick([]int{5, 1, 1, 1}, "nonodename")]}}
	case 4:
		return &Stmt{K: sCall, E: &Expr{K: eCall, S: g.unknownFn()}}
	case 5:
		if len(g.vars[0]) > 0 {
			return &Stmt{K: sSet, Var: g.vars[0][0], Op: "=", E: &Expr{K: eStr, S: "now a string"}}
		}
		return &Stmt{K: sSet, Var: "fresh9", Op: "+=", E: numLit(1)}
	case 6:
		return &Stmt{K: sCommand, Cmd: "wait", Args: []CmdArg{{Word: "abc"}}}
	case 7:
		return &Stmt{K: sCommand, Cmd: "wait"}
	case 8:
		if len(g.cfg.Handlers) > 0 {
			h := g.cfg.Handlers[0]
			if h.Shape[:4] == "conv" && h.Vari == "" {
				// one argument too many
				s := &Stmt{K: sCommand, Cmd: h.Name}
				for range h.Params {
					s.Args = append(s.Args, CmdArg{Word: "1"})
				}
				s.Args = append(s.Args, CmdArg{Word: "extra"})
				return s
			}
		}
		return &Stmt{K: sCall, E: &Expr{K: eCall, S: "pn", A: []*Expr{{K: eBool, B: true}}}}
	}
	return &Stmt{K: sIf, Clauses: []*Clause{{Cond: numLit(1), Body: []*Stmt{g.line()}}}}
}

// longNames: the usual short name and three that are long in bytes, in runes, or both - an error
// message that shortens or pads a name has to cope with all of them.
func longNames(short string) []string {
	return []string{short,
		short + "_" + strings.Repeat("x", 60),
		"ノードはここにありませんよ本当に",      // 16 runes, 48 bytes
		strings.Repeat("é", 45), // 45 runes, 90 bytes
	}
}

func (g *gen) jumpTarget() string {
	return g.titles[g.tp.Int(0, len(g.titles)-1, "target")]
}

func (g *gen) jumpE() *Stmt {
	t := g.jumpTarget()
	switch g.tp.Int(0, 3, "jumpekind") {
	case 0:
		return &Stmt{K: sJumpE, E: &Expr{K: eStr, S: t}}
	case 1:
		// split the title in two halves and concatenate
		r := []rune(t)
		h := len(r) / 2
		return &Stmt{K: sJumpE, E: &Expr{K: eBin, Op: "+", A: []*Expr{{K: eStr, S: string(r[:h])}, {K: eStr, S: string(r[h:])}}}}
	default:
		if len(g.jvars) > 0 {
			v := &Expr{K: eVar, S: g.jvars[g.tp.Int(0, len(g.jvars)-1, "jvar")]}
			switch g.tp.Int(0, 3, "jvarform") {
			case 1: // a computed, state-dependent destination
				return &Stmt{K: sJumpE, E: g.bin("+", v, &Expr{K: eStr, S: ""})}
			case 2:
				return &Stmt{K: sJumpE, E: g.bin("+", &Expr{K: eStr, S: ""}, v)}
			}
			return &Stmt{K: sJumpE, E: v}
		}
		return &Stmt{K: sJumpE, E: &Expr{K: eStr, S: t}}
	}
}

func (g *gen) lineS(isOption bool) *LineS {
	g.lineSeq++
	prefix := "L"
	if isOption {
		prefix = "O"
	}
	l := &LineS{}
	id := fmt.Sprintf("%s%d", prefix, g.lineSeq)
	nw := g.tp.Int(0, 3, "nwords")
	if g.outlier == "words" && g.tp.Chance(30, "manywords") {
		nw = g.tp.Int(10, 40, "nmanywords")
	}
	text := id
	for i := 0; i < nw; i++ {
		text += " " + g.word()
	}
	if g.cfg.MarkupLines && g.tp.Chance(40, "markupchunk") {
		// markup of every kind the line parser knows (model-free worlds only: the model does not parse markup)
		text += " " + []string{
			"[b]bold[/b]", "[wave a=1 s=\"q r\"]w[/wave] x", "[nomarkup][x] raw [/b][/nomarkup]", "[nomarkup]n[/] tail",
			"[select value=b a=\"A\" b=\"B\" /]", "[plural value=2 one=\"cat\" other=\"% cats\" /]", "[ordinal value=3 one=\"%st\" two=\"%nd\" few=\"%rd\" other=\"%th\" /]",
			"\\[esc\\]", "[a/] after", "[em]é日本[/em]", "[a][b]nested[/b][/a]", "[c trimwhitespace=false /] kept", "[x]open to the end",
			"[plural value=3 one=\"a\" two=\"b\" other=\"c\" /]", "[ordinal value=2 one=\"x\" few=\"y\" other=\"z\" /]", "[ordinal value=23 one=\"%st\" two=\"%nd\" few=\"%rd\" other=\"%th\" /]",
		}[g.tp.Int(0, 15, "markupkind")]
	}
	if g.outlier == "longline" && !g.cfg.NoLongLines && g.tp.Chance(30, "longline") {
		// one line of several KB, its byte length near a power of two or well beyond: buffers have sizes
		target := []int{4096, 8192, 16384, 65536}[g.tp.Pick([]int{5, 2, 1, 1}, "longlinebase")] + g.tp.Int(-8, 8, "longlinedelta")
		if g.tp.Chance(25, "longlinefree") {
			target = g.tp.Int(3000, 20000, "longlinelen")
		}
		var sb strings.Builder
		sb.WriteString(text)
		for sb.Len() < target-6 {
			sb.WriteString(" " + g.word())
		}
		for sb.Len() < target {
			sb.WriteString("x")
		}
		text = sb.String()
	}
	l.Parts = append(l.Parts, Part{Text: text})
	if g.cfg.CountLines {
		// two counters inside ONE expression (a result that is still held while the next call runs)
		if len(g.titles) > 0 {
			vc := func(t string) *Expr { return &Expr{K: eCall, S: "visited_count", A: []*Expr{{K: eStr, S: t}}} }
			l.Parts = append(l.Parts, Part{Text: " x="}, Part{E: g.bin("+", vc(g.titles[0]), g.bin("*", vc(g.titles[len(g.titles)-1]), numLit(1000)))})
		}
		for _, t := range append(append([]string{}, g.titles...), "nowhere", "L1") {
			l.Parts = append(l.Parts, Part{Text: " "}, Part{E: &Expr{K: eCall, S: "visited_count", A: []*Expr{{K: eStr, S: t}}}})
			l.Parts = append(l.Parts, Part{Text: ","}, Part{E: &Expr{K: eCall, S: "visited", A: []*Expr{{K: eStr, S: t}}}})
		}
	}
	if g.cfg.VarLines && g.tp.Chance(70, "varline") {
		for k := 0; k < 3; k++ {
			for _, v := range g.vars[k] {
				l.Parts = append(l.Parts, Part{Text: " " + v + "="}, Part{E: &Expr{K: eVar, S: v}})
			}
		}
		l.Parts = append(l.Parts, Part{Text: " ."})
	}
	if g.tp.Chance(g.cfg.InlinePct, "inline") {
		k := g.tp.Int(1, 2, "ninline")
		if g.outlier == "inlines" {
			k = g.tp.Int(3, 7, "manyinlines")
		}
		for i := 0; i < k; i++ {
			ty := []byte{'n', 'b', 's'}[g.tp.Int(0, 2, "inlinety")]
			l.Parts = append(l.Parts, Part{Text: " "}, Part{E: g.expr(ty, g.cfg.ExprDepth)})
			if g.tp.Chance(30, "tailword") {
				l.Parts = append(l.Parts, Part{Text: " " + g.word()})
			}
		}
	}
	if g.tp.Chance(g.cfg.TagPct, "tags") {
		k := g.tp.Int(1, 2, "ntags")
		if g.outlier == "tags" {
			k = g.tp.Int(3, 6, "manytags")
		}
		for i := 0; i < k; i++ {
			l.Tags = append(l.Tags, []string{"t1", "line:0a1b", "mood", "x-2"}[g.tp.Int(0, 3, "tag")])
		}
	}
	return l
}

func (g *gen) line() *Stmt {
	if g.cfg.ExprOnlyLines && g.tp.Chance(6, "expronlyline") {
		// a line that consists of an inline expression only - and may therefore render as nothing at all
		e := &Expr{K: eStr, S: []string{"", " ", "x"}[g.tp.Int(0, 2, "expronlylit")]}
		if vs := g.varsOf('s'); len(vs) > 0 && g.tp.Bool("expronlyvar") {
			e = &Expr{K: eVar, S: vs[g.tp.Int(0, len(vs)-1, "var")]}
		}
		return &Stmt{K: sLine, Line: &LineS{Parts: []Part{{E: e}}}}
	}
	if g.cfg.Random && g.tp.Chance(45, "randline") {
		return g.randLine()
	}
	return &Stmt{K: sLine, Line: g.lineS(false)}
}

// randLine renders a random built-in next to its bounds, so the range can be checked from the text:
// "RD <sides> <value>", "RR <lo> <hi> <value>", "RF <value>".
func (g *gen) randLine() *Stmt {
	g.lineSeq++
	l := &LineS{}
	switch g.tp.Int(0, 2, "randline") {
	case 0:
		n := []int{1, 2, 6, 20, 100, 1000000}[g.tp.Int(0, 5, "sides")]
		if g.tp.Chance(20, "bigsides") {
			// counts around and beyond 2^31 / 2^32 and up to 2^62: fixed-width arithmetic has edges there
			n = []int{1<<31 - 1, 1 << 31, 1<<31 + 1, 3000000000, 1<<32 - 1, 1 << 32, 1<<32 + 1, 1 << 40, 1 << 52, 1 << 62, g.tp.Int(1<<31, 1<<33, "sidesfree")}[g.tp.Int(0, 10, "bigsideskind")]
		}
		l.Parts = []Part{{Text: fmt.Sprintf("RD %d ", n)}, {E: &Expr{K: eCall, S: "dice", A: []*Expr{numLit(float64(n))}}}}
	case 1:
		lo := g.tp.Int(-20, 20, "lo")
		hi := lo + []int{0, 1, 2, 9, 1000}[g.tp.Int(0, 4, "span")]
		if g.tp.Chance(20, "bigspan") {
			hi = lo + []int{1<<31 - 2, 1<<31 - 1, 1 << 31, 3000000000, 1<<32 - 2, 1<<32 - 1, 1 << 32, 1 << 40, 1 << 52, g.tp.Int(1<<31, 1<<33, "spanfree")}[g.tp.Int(0, 9, "bigspankind")]
			if g.tp.Chance(30, "biglo") {
				lo -= 1 << 40
				hi -= 1 << 40
			}
		}
		l.Parts = []Part{{Text: fmt.Sprintf("RR %d %d ", lo, hi)}, {E: &Expr{K: eCall, S: "random_range", A: []*Expr{numLit(float64(lo)), numLit(float64(hi))}}}}
	default:
		l.Parts = []Part{{Text: "RF "}, {E: &Expr{K: eCall, S: "random"}}}
	}
	return &Stmt{K: sLine, Line: l}
}

func (g *gen) options(depth int) *Stmt {
	n := g.tp.Int(1, 4-min(depth, 2), "nopts")
	if g.outlier == "options" && depth == 0 && g.tp.Chance(50, "manyopts") {
		n = g.tp.Int(5, 11, "nmanyopts")
	}
	s := &Stmt{K: sOptions}
	for i := 0; i < n; i++ {
		o := &Option{Line: g.lineS(true)}
		if g.tp.Chance(g.cfg.CondPct, "optcond") {
			o.Line.Cond = g.expr('b', g.cfg.ExprDepth)
		}
		if g.tp.Chance(75, "optbody") {
			o.Body = g.body(depth + 1)
		}
		s.Options = append(s.Options, o)
	}
	return s
}

func (g *gen) ifStmt(depth int) *Stmt {
	s := &Stmt{K: sIf}
	nElseIf := g.tp.Int(0, 2, "nelseif")
	if g.outlier == "elseifs" && g.tp.Chance(50, "manyelseifs") {
		nElseIf = g.tp.Int(4, 9, "nmanyelseifs")
	}
	for i := 0; i <= nElseIf; i++ {
		s.Clauses = append(s.Clauses, &Clause{Cond: g.expr('b', g.cfg.ExprDepth), Body: g.body(depth + 1)})
	}
	if g.tp.Bool("else") {
		s.Clauses = append(s.Clauses, &Clause{Body: g.body(depth + 1)})
	}
	return s
}

var setOps = []string{"=", "+=", "-=", "*=", "/=", "%="}

func (g *gen) pickVar() (string, byte) {
	var all []string
	var kinds []byte
	for k, ty := range []byte{'n', 'b', 's'} {
		for _, v := range g.vars[k] {
			all = append(all, v)
			kinds = append(kinds, ty)
		}
	}
	i := g.tp.Int(0, len(all)-1, "var")
	return all[i], kinds[i]
}

func (g *gen) set() *Stmt {
	if len(g.jvars) > 0 && g.tp.Chance(15, "setj") {
		return &Stmt{K: sSet, Var: g.jvars[g.tp.Int(0, len(g.jvars)-1, "jvar")], Op: "=", E: &Expr{K: eStr, S: g.jumpTarget()}, Spell: g.tp.Int(0, 1, "sp")}
	}
	v, ty := g.pickVar()
	if g.tp.Chance(g.cfg.IllTypedSets, "illtyped") {
		// any operator, any value type, possibly an unknown variable: the model decides what must happen
		if g.tp.Chance(20, "unknownvar") {
			v = "fresh" + fmt.Sprint(g.tp.Int(0, 2, "fresh"))
		}
		vty := []byte{'n', 'b', 's'}[g.tp.Int(0, 2, "valty")]
		return &Stmt{K: sSet, Var: v, Op: setOps[g.tp.Int(0, 5, "setop")], E: g.expr(vty, g.cfg.ExprDepth), Spell: g.tp.Int(0, 1, "sp")}
	}
	op := "="
	switch ty {
	case 'n':
		op = setOps[g.tp.Int(0, 5, "setop")]
	case 's':
		op = []string{"=", "+="}[g.tp.Int(0, 1, "setop")]
	}
	e := g.expr(ty, g.cfg.ExprDepth)
	if ty == 's' && g.cfg.NoStringSelfGrowth {
		// model-free worlds have no model to stop a program that doubles or triples a string every round (a
		// program doing what it says, at 3^30 bytes): there the right-hand side of a string assignment is
		// built from literals and calls only
		g.stripStringVars(e)
	}
	return &Stmt{K: sSet, Var: v, Op: op, E: e, Spell: g.tp.Int(0, 1, "sp")}
}

func (g *gen) stripStringVars(e *Expr) {
	if e == nil {
		return
	}
	if e.K == eVar {
		for _, v := range append(append([]string{}, g.vars[2]...), g.jvars...) {
			if e.S == v {
				*e = Expr{K: eStr, S: "sv"}
				return
			}
		}
	}
	for _, a := range e.A {
		g.stripStringVars(a)
	}
}

func (g *gen) declare() *Stmt {
	v, ty := g.pickVar()
	if g.tp.Chance(g.cfg.IllTypedSets, "illtyped") {
		ty = []byte{'n', 'b', 's'}[g.tp.Int(0, 2, "valty")]
		if g.tp.Chance(30, "unknownvar") {
			v = "fresh" + fmt.Sprint(g.tp.Int(0, 2, "fresh"))
		}
	}
	// the grammar only allows a `value` here: literal, variable or function call
	var e *Expr
	switch ty {
	case 'n':
		e = &Expr{K: eNum, N: float64(g.tp.Int(0, 9, "declnum"))}
	case 'b':
		e = &Expr{K: eBool, B: g.tp.Bool("declbool")}
	default:
		e = &Expr{K: eStr, S: g.strLit()}
	}
	if g.tp.Chance(25, "declvar") && len(g.varsOf(ty)) > 0 {
		vs := g.varsOf(ty)
		e = &Expr{K: eVar, S: vs[g.tp.Int(0, len(vs)-1, "var")]}
	}
	st := &Stmt{K: sDeclare, Var: v, E: e, Spell: g.tp.Int(0, 1, "sp")}
	if g.tp.Chance(30, "declas") {
		st.AsType = map[byte]string{'n': "number", 'b': "bool", 's': "string"}[ty]
	}
	if g.cfg.IllTypedSets > 0 && strings.HasPrefix(v, "fresh") && g.tp.Chance(50, "declfails") {
		// a declaration of a variable that does not exist yet whose initialiser fails: nothing may be left behind
		st.E = []*Expr{{K: eVar, S: "undefinedZ"}, {K: eCall, S: "nofunc"}, {K: eCall, S: "pfail", A: []*Expr{numLit(1)}}}[g.tp.Int(0, 2, "declfailkind")]
	}
	return st
}

func (g *gen) varsOf(ty byte) []string {
	switch ty {
	case 'n':
		return g.vars[0]
	case 'b':
		return g.vars[1]
	}
	return g.vars[2]
}

func (g *gen) callStmt() *Stmt {
	if g.cfg.HostPanics && g.tp.Chance(12, "callpanics") {
		// a host function that panics with a value of its own (neither an error nor a string) and a host that survives it
		return &Stmt{K: sCall, E: &Expr{K: eCall, S: "pboom", A: []*Expr{numLit(float64(g.tp.Int(0, 2, "boomkind")))}}}
	}
	if g.cfg.HostFnWrites && g.tp.Chance(12, "callretypes") {
		// the host gives the assigned variable another type from inside the function that computes the new value:
		// whatever the order of reads inside the statement, the variable must not end up with a value of the old type
		pool := append(append(append([]string{}, g.vars[0]...), g.vars[1]...), g.vars[2]...)
		if len(pool) > 0 {
			v := pool[g.tp.Int(0, len(pool)-1, "retypevar")]
			return &Stmt{K: sSet, Var: v, Op: "=", E: &Expr{K: eCall, S: "pty", A: []*Expr{{K: eStr, S: v}}}}
		}
	}
	if g.cfg.HostFnWrites && len(g.vars[0]) > 0 && g.tp.Chance(8, "callclears") {
		// the host empties its storer from inside the function that computes the new value of a number variable
		v := g.vars[0][g.tp.Int(0, len(g.vars[0])-1, "clearvar")]
		e := &Expr{K: eCall, S: "pclr"}
		if g.tp.Bool("clearplus") {
			e = g.bin("+", numLit(float64(g.tp.Int(0, 9, "clearlit"))), e)
		}
		return &Stmt{K: sSet, Var: v, Op: "=", E: e}
	}
	if g.cfg.HostFnWrites && len(g.vars[0]) > 0 && g.tp.Chance(40, "callwrites") {
		// a host function that writes a variable through the storer in the middle of a run of statements
		return &Stmt{K: sCall, E: &Expr{K: eCall, S: "pw", A: []*Expr{{K: eStr, S: g.vars[0][g.tp.Int(0, len(g.vars[0])-1, "pwvar")]}, g.expr('n', 1)}}}
	}
	switch g.tp.Int(0, 3, "callkind") {
	case 0:
		return &Stmt{K: sCall, E: &Expr{K: eCall, S: "pv"}}
	case 1:
		return &Stmt{K: sCall, E: &Expr{K: eCall, S: "pn", A: []*Expr{g.expr('n', 1)}}}
	case 2:
		return &Stmt{K: sCall, E: &Expr{K: eCall, S: "ps", A: []*Expr{g.expr('s', 1)}}}
	}
	return &Stmt{K: sCall, E: &Expr{K: eCall, S: "pb", A: []*Expr{g.expr('b', 1)}}}
}

var cmdWords = []string{"abc", "left", "x1", "Door", "fast", "né"}

func (g *gen) command() *Stmt {
	h := g.cfg.Handlers[g.tp.Int(0, len(g.cfg.Handlers)-1, "handler")]
	s := &Stmt{K: sCommand, Cmd: h.Name}
	kinds := append([]string{}, h.Params...)
	if h.Vari != "" {
		k := g.tp.Int(0, 2, "nvari")
		for i := 0; i < k; i++ {
			kinds = append(kinds, h.Vari)
		}
	}
	for _, k := range kinds {
		ty := yarnKindOfGo(k)
		argPct := 35
		if g.cfg.ArgExprPct > 0 {
			argPct = g.cfg.ArgExprPct
		}
		if g.cfg.ReregInArgs && g.tp.Chance(10, "argreregisters") {
			// an argument whose evaluation replaces the handler of the very command it belongs to
			lit := map[byte]*Expr{'n': numLit(float64(g.tp.Int(0, 9, "rereglit"))), 'b': {K: eBool, B: true}, 's': {K: eStr, S: "abc"}}[ty]
			s.Args = append(s.Args, CmdArg{E: &Expr{K: eCall, S: "prr", A: []*Expr{{K: eStr, S: h.Name}, lit}}})
			continue
		}
		if g.tp.Chance(argPct, "argexpr") {
			s.Args = append(s.Args, CmdArg{E: g.expr(ty, 1)})
			continue
		}
		switch ty {
		case 'n':
			s.Args = append(s.Args, CmdArg{Word: []string{"0", "1", "7", "12", "-3", "2.5", "100"}[g.tp.Int(0, 6, "argnum")]})
		case 'b':
			s.Args = append(s.Args, CmdArg{Word: []string{"false", "true"}[g.tp.Int(0, 1, "argbool")]})
		default:
			w := cmdWords[g.tp.Int(0, len(cmdWords)-1, "argword")]
			if !g.cfg.NonASCII && w == "né" {
				w = "ne"
			}
			s.Args = append(s.Args, CmdArg{Word: w})
		}
	}
	return s
}

func (g *gen) wait() *Stmt {
	vals := g.cfg.WaitVals
	if len(vals) == 0 {
		vals = []float64{1, 2, 0.5, 2.75, 0.25, 3, 10, 0.1, 1.3, 600, 0.125, 0.0009, 0.0109, 1.001, 2.0005, 0.00015, 0.0009765625, 59.9999}
	}
	v := vals[g.tp.Int(0, len(vals)-1, "waitval")]
	if g.tp.Chance(20, "waitexpr") {
		if g.tp.Bool("waithalf") {
			return &Stmt{K: sWait, E: &Expr{K: eBin, Op: "/", A: []*Expr{{K: eNum, N: v * 2}, {K: eNum, N: 2}}}}
		}
		return &Stmt{K: sWait, E: &Expr{K: eBin, Op: "+", A: []*Expr{{K: eNum, N: v}, {K: eNum, N: 0}}}}
	}
	return &Stmt{K: sWait, E: &Expr{K: eNum, N: v}}
}

// ---------- expressions ----------

var numLits = []float64{0, 1, 2, 3, 4, 5, 6, 7, 10, 12, 100, 0.5, 2.75, 1.25, 3.125, 1000000}

func (g *gen) atom(ty byte) *Expr {
	vs := g.varsOf(ty)
	if len(vs) > 0 && g.tp.Chance(45, "atomvar") {
		return &Expr{K: eVar, S: vs[g.tp.Int(0, len(vs)-1, "var")]}
	}
	switch ty {
	case 'n':
		if g.tp.Chance(2, "bignumlit") {
			// beyond 2^32, 2^53 and 2^63: whatever is done through a machine integer has edges there
			return &Expr{K: eNum, N: []float64{4294967296, 4294967297, 9007199254740992, 9223372036854775808, 18446744073709551616, 1e19, 1e30}[g.tp.Int(0, 6, "bignum")]}
		}
		return &Expr{K: eNum, N: numLits[g.tp.Int(0, len(numLits)-1, "numlit")]}
	case 'b':
		return &Expr{K: eBool, B: g.tp.Bool("boollit")}
	}
	return &Expr{K: eStr, S: g.strLit()}
}

var binSpellings = map[string][]string{
	"+": {"+"}, "-": {"-"}, "*": {"*"}, "/": {"/"}, "%": {"%"},
	"<": {"<", "lt"}, "<=": {"<=", "lte"}, ">": {">", "gt"}, ">=": {">=", "gte"},
	"==": {"==", "is", "eq"}, "!=": {"!=", "neq"},
	"and": {"and", "&&"}, "or": {"or", "||"}, "xor": {"xor", "^"},
}

func (g *gen) bin(op string, a, b *Expr) *Expr {
	return &Expr{K: eBin, Op: op, A: []*Expr{a, b}, Spell: g.tp.Int(0, len(binSpellings[op])-1, "spell"), Paren: g.paren()}
}

func (g *gen) paren() int {
	if g.tp.Chance(10, "paren") {
		return 1
	}
	return 0
}

func (g *gen) expr(ty byte, depth int) *Expr {
	if g.cfg.Faults > g.faults && g.tp.Chance(12, "fault") {
		g.faults++
		return g.faultExpr(ty)
	}
	if depth <= 0 || g.tp.Chance(35, "leaf") {
		return g.atom(ty)
	}
	if g.cfg.Builtins && g.tp.Chance(25+g.cfg.MoreBuiltins, "builtin") {
		switch ty {
		case 'n':
			f := []string{"round", "floor", "ceil", "inc", "dec", "decimal", "integer"}[g.tp.Int(0, 6, "numfn")]
			if g.tp.Chance(15+g.cfg.MoreBuiltins, "roundplaces") {
				return &Expr{K: eCall, S: "round_places", A: []*Expr{g.expr('n', depth-1), numLit(float64([]int{0, 1, 2, 3, -1, -2, 15, 16, 17, 31, 32}[g.tp.Pick([]int{4, 4, 4, 4, 1, 1, 1, 1, 1, 1, 1}, "places")]))}}
			}
			if g.tp.Chance(10, "numberfn") {
				return &Expr{K: eCall, S: "number", A: []*Expr{{K: eStr, S: []string{"12", "2.5", "0"}[g.tp.Int(0, 2, "numstr")]}}}
			}
			return &Expr{K: eCall, S: f, A: []*Expr{g.expr('n', depth-1)}}
		case 's':
			return &Expr{K: eCall, S: "string", A: []*Expr{g.expr([]byte{'n', 'b'}[g.tp.Int(0, 1, "strof")], depth-1)}}
		case 'b':
			return &Expr{K: eCall, S: "bool", A: []*Expr{{K: eStr, S: []string{"true", "false"}[g.tp.Int(0, 1, "boolstr")]}}}
		}
	}
	switch ty {
	case 'n':
		w := []int{5, 4, 3, 2, 2, 2, 0, 0, 0}
		if g.cfg.Probes {
			w[6] = 3
		}
		if g.cfg.Visited {
			w[7] = 3
		}
		if g.cfg.Random {
			w[8] = 8
		}
		switch g.tp.Pick(w, "nexpr") {
		case 0:
			return g.bin("+", g.expr('n', depth-1), g.expr('n', depth-1))
		case 1:
			return g.bin("-", g.expr('n', depth-1), g.expr('n', depth-1))
		case 2:
			return g.bin("*", g.expr('n', depth-1), g.expr('n', depth-1))
		case 3:
			return g.bin("/", g.expr('n', depth-1), g.expr('n', depth-1))
		case 4:
			return g.bin("%", g.expr('n', depth-1), g.expr('n', depth-1))
		case 5:
			return &Expr{K: eNeg, A: []*Expr{g.expr('n', depth-1)}}
		case 6:
			if g.tp.Bool("pn2") {
				return &Expr{K: eCall, S: "pn2", A: []*Expr{g.expr('n', depth-1), g.expr('n', depth-1)}}
			}
			return &Expr{K: eCall, S: []string{"pn", "pnn"}[g.tp.Int(0, 1, "pnkind")], A: []*Expr{g.expr('n', depth-1)}}
		case 7:
			return &Expr{K: eCall, S: "visited_count", A: []*Expr{{K: eStr, S: g.visitName()}}}
		case 8:
			return g.randomExpr()
		}
	case 'b':
		w := []int{4, 3, 3, 3, 2, 3, 0, 0, 0}
		if g.cfg.Probes {
			w[6] = 3
		}
		if g.cfg.Visited {
			w[7] = 3
		}
		if g.cfg.Random {
			w[8] = 4
		}
		switch g.tp.Pick(w, "bexpr") {
		case 0:
			op := []string{"<", "<=", ">", ">="}[g.tp.Int(0, 3, "cmp")]
			return g.bin(op, g.expr('n', depth-1), g.expr('n', depth-1))
		case 1:
			op := []string{"==", "!="}[g.tp.Int(0, 1, "eq")]
			t := []byte{'n', 'b', 's'}[g.tp.Int(0, 2, "eqty")]
			return g.bin(op, g.expr(t, depth-1), g.expr(t, depth-1))
		case 2:
			return g.bin("and", g.expr('b', depth-1), g.expr('b', depth-1))
		case 3:
			return g.bin("or", g.expr('b', depth-1), g.expr('b', depth-1))
		case 4:
			return g.bin("xor", g.expr('b', depth-1), g.expr('b', depth-1))
		case 5:
			return &Expr{K: eNot, A: []*Expr{g.expr('b', depth-1)}, Spell: g.tp.Int(0, 1, "spell")}
		case 6:
			return &Expr{K: eCall, S: "pb", A: []*Expr{g.expr('b', depth-1)}}
		case 7:
			return &Expr{K: eCall, S: "visited", A: []*Expr{{K: eStr, S: g.visitName()}}}
		case 8:
			return g.bin("<", g.randomExpr(), g.expr('n', 0))
		}
	default:
		w := []int{5, 0}
		if g.cfg.Probes {
			w[1] = 3
		}
		switch g.tp.Pick(w, "sexpr") {
		case 0:
			return g.bin("+", g.expr('s', depth-1), g.expr('s', depth-1))
		case 1:
			return &Expr{K: eCall, S: "ps", A: []*Expr{g.expr('s', depth-1)}}
		}
	}
	return g.atom(ty)
}

func (g *gen) visitName() string {
	if g.tp.Chance(10, "nonnode") {
		return "nowhere"
	}
	return g.jumpTarget()
}

func (g *gen) randomExpr() *Expr {
	switch g.tp.Int(0, 2, "randkind") {
	case 0:
		return &Expr{K: eCall, S: "dice", A: []*Expr{{K: eNum, N: float64(g.tp.Int(1, 20, "sides"))}}}
	case 1:
		lo := g.tp.Int(-5, 5, "lo")
		return &Expr{K: eCall, S: "random_range", A: []*Expr{numLit(float64(lo)), numLit(float64(lo + g.tp.Int(0, 9, "span")))}}
	}
	return &Expr{K: eCall, S: "random"}
}

func numLit(n float64) *Expr {
	if n < 0 {
		return &Expr{K: eNeg, A: []*Expr{{K: eNum, N: -n}}}
	}
	return &Expr{K: eNum, N: n}
}

// faultExpr returns an expression of nominal type ty that contains one
// script-level fault (C06). What must happen is decided by the model.
func (g *gen) faultExpr(ty byte) *Expr {
	other := func() *Expr {
		switch ty {
		case 'n':
			return &Expr{K: eStr, S: "a"}
		case 'b':
			return &Expr{K: eNum, N: 1}
		}
		return &Expr{K: eBool, B: true}
	}
	k := g.tp.Int(0, 11, "faultkind")
	switch k {
	case 0: // ill-typed binary operand
		switch ty {
		case 'n':
			return g.bin("+", g.atom('n'), other())
		case 'b':
			return g.bin("and", g.atom('b'), other())
		}
		return g.bin("+", g.atom('s'), other())
	case 1: // ill-typed unary
		if ty == 'b' {
			return &Expr{K: eNot, A: []*Expr{{K: eNum, N: 3}}}
		}
		return &Expr{K: eNeg, A: []*Expr{{K: eStr, S: "s"}}}
	case 2:
		if len(g.vars[0]) > 0 && len(g.vars[0][0]) >= 2 && g.tp.Chance(25, "nearvar") {
			// a name one edit away from the world's variables (from several of them when they differ in that place only)
			v := g.vars[0][0]
			return &Expr{K: eVar, S: v[:1] + "z" + v[2:]}
		}
		return &Expr{K: eVar, S: "undefined" + fmt.Sprint(g.tp.Int(0, 2, "undef"))}
	case 3:
		return &Expr{K: eCall, S: g.unknownFn(), A: []*Expr{g.atom('n')}}
	case 4: // wrong arity
		if g.tp.Bool("arity") {
			return &Expr{K: eCall, S: "pn"}
		}
		return &Expr{K: eCall, S: "pn", A: []*Expr{g.atom('n'), g.atom('n')}}
	case 5: // wrong argument type
		return &Expr{K: eCall, S: "pn", A: []*Expr{{K: eStr, S: "a"}}}
	case 6:
		return &Expr{K: eNull}
	case 7: // empty / undefined integer ranges
		switch g.tp.Int(0, 8, "domain") {
		case 5: // exactly 2^63 integers: the count does not fit an int
			return &Expr{K: eCall, S: "random_range", A: []*Expr{numLit(-9223372036854775808), numLit(-1)}}
		case 6:
			return &Expr{K: eCall, S: "random_range", A: []*Expr{numLit(-9223372036854775808), numLit(0)}}
		case 7:
			return &Expr{K: eCall, S: "random_range", A: []*Expr{numLit(float64(g.tp.Int(-2, 2, "lo"))), numLit(9223372036854775807)}}
		case 8:
			return &Expr{K: eCall, S: "dice", A: []*Expr{numLit(9223372036854775807)}}
		case 0:
			return &Expr{K: eCall, S: "dice", A: []*Expr{{K: eNum, N: 0}}}
		case 1:
			return &Expr{K: eCall, S: "dice", A: []*Expr{numLit(-float64(g.tp.Int(1, 6, "negsides")))}}
		case 2:
			return &Expr{K: eCall, S: "random_range", A: []*Expr{{K: eNum, N: 5}, {K: eNum, N: 1}}}
		case 3:
			return &Expr{K: eCall, S: "dice", A: []*Expr{{K: eNum, N: 1e30}}}
		}
		return &Expr{K: eCall, S: "random_range", A: []*Expr{numLit(-9e18), {K: eNum, N: 9e18}}}
	case 8: // arguments whose treatment the property leaves open: value or error, never a panic
		switch g.tp.Int(0, 3, "odd") {
		case 0:
			return &Expr{K: eCall, S: "dice", A: []*Expr{{K: eNum, N: 2.5}}}
		case 1:
			return &Expr{K: eCall, S: "dice", A: []*Expr{g.bin("/", numLit(1), numLit(0))}}
		case 2:
			return &Expr{K: eCall, S: "random_range", A: []*Expr{g.bin("/", numLit(0), numLit(0)), numLit(3)}}
		}
		return &Expr{K: eCall, S: "random_range", A: []*Expr{numLit(0.5), numLit(3.5)}}
	case 9: // a function that returns nothing, used as a value
		return &Expr{K: eCall, S: "pv"}
	case 10: // a host function that reports an error
		return &Expr{K: eCall, S: "pfail", A: []*Expr{g.atom('n')}}
	}
	// wrong result type for the position (e.g. a number where a boolean is needed)
	return other()
}

// ensureYieldingCycles makes every cycle of the jump graph pass through a node
// that yields (line or option group) before it can jump, so that worlds driven
// without the model's step budget cannot contain a non-yielding cycle (which is
// a non-terminating program, not a property violation).
func (g *gen) ensureYieldingCycles(p *Program) {
	yieldFirst := func(n *Node) bool {
		for _, s := range n.Body {
			switch s.K {
			case sCall, sSet, sDeclare:
				continue
			case sLine, sOptions:
				return true
			default:
				return false
			}
		}
		return false
	}
	index := map[string]int{}
	yf := map[string]bool{}
	for i, n := range p.Nodes {
		index[n.Title] = i
		yf[n.Title] = yieldFirst(n)
	}
	for i, n := range p.Nodes {
		if yf[n.Title] {
			continue
		}
		ok := true
		walkStmts(n.Body, func(s *Stmt) {
			switch s.K {
			case sJump:
				if j, found := index[s.Target]; found && j <= i && !yf[s.Target] {
					ok = false
				}
			case sJumpE:
				if s.E.K != eStr {
					ok = false
				} else if j, found := index[s.E.S]; found && j <= i && !yf[s.E.S] {
					ok = false
				}
			}
		})
		if !ok {
			at := 0
			if len(n.Body) > 0 && n.Body[0].K == sCall && n.Body[0].E.S == "enter" {
				at = 1
			}
			body := append([]*Stmt{}, n.Body[:at]...)
			body = append(body, g.line())
			body = append(body, n.Body[at:]...)
			n.Body = body
			yf[n.Title] = true
		}
	}
}

// hubProgram builds a looping program: a Hub node that is re-entered several
// times under a changing counter and dispatches, through a computed jump, to
// room nodes that jump back. The same statements therefore run repeatedly under
// different state - the shape on which per-statement caches and missed resets show.
func (g *gen) hubProgram() *Program {
	g.drawOutlier()
	k := g.tp.Int(2, 3, "rooms")
	g.titles = []string{"Start", "Hub"}
	for i := 1; i <= k; i++ {
		g.titles = append(g.titles, fmt.Sprintf("R%d", i))
	}
	kinds := []string{"n", "b", "s"}
	for t := 0; t < 3; t++ {
		for i := 0; i < g.cfg.NVars[t]; i++ {
			g.vars[t] = append(g.vars[t], fmt.Sprintf("%s%d%s", kinds[t], i, g.suffix))
		}
	}
	if len(g.vars[0]) == 0 {
		g.vars[0] = []string{"n0" + g.suffix}
	}
	j0 := "j0" + g.suffix
	g.jvars = []string{j0}
	cnt := "cnt" + g.suffix
	p := &Program{}
	start := &Node{Title: "Start"}
	start.Body = append(start.Body, g.prelude()...)
	start.Body = append(start.Body, &Stmt{K: sDeclare, Var: cnt, E: numLit(0)})
	start.Body = append(start.Body, g.body(1)...)
	start.Body = append(start.Body, &Stmt{K: sJump, Target: "Hub"})
	p.Nodes = append(p.Nodes, start)

	hub := &Node{Title: "Hub"}
	rounds := g.tp.Int(2, 4, "rounds")
	if g.outlier == "rounds" {
		rounds = g.tp.Int(12, 40, "manyrounds") // a long run over few statements
		if g.tp.Chance(40, "hugerounds") {
			rounds = g.tp.Int(126, 300, "nhugerounds") // beyond what fits a small counter
			g.bigRounds = true
		}
	}
	if g.cfg.BigRoundsPct > 0 && g.tp.Chance(g.cfg.BigRoundsPct, "bigroundsworld") {
		rounds = g.tp.Int(126, 300, "nhugerounds")
		g.bigRounds = true
	}
	hub.Body = append(hub.Body, &Stmt{K: sSet, Var: cnt, Op: "+=", E: numLit(1)})
	hub.Body = append(hub.Body, &Stmt{K: sIf, Clauses: []*Clause{{Cond: g.bin(">", &Expr{K: eVar, S: cnt}, numLit(float64(rounds))), Body: []*Stmt{g.line(), {K: sStop}}}}})
	hub.Body = append(hub.Body, g.body(1)...)
	// state-dependent dispatch
	disp := &Stmt{K: sIf}
	for i := 1; i < k; i++ {
		disp.Clauses = append(disp.Clauses, &Clause{Cond: g.bin("==", g.bin("%", &Expr{K: eVar, S: cnt}, numLit(float64(k))), numLit(float64(i))),
			Body: []*Stmt{{K: sSet, Var: j0, Op: "=", E: &Expr{K: eStr, S: fmt.Sprintf("R%d", i)}}}})
	}
	disp.Clauses = append(disp.Clauses, &Clause{Body: []*Stmt{{K: sSet, Var: j0, Op: "=", E: &Expr{K: eStr, S: fmt.Sprintf("R%d", k)}}}})
	hub.Body = append(hub.Body, disp)
	v := &Expr{K: eVar, S: j0}
	var dest *Expr
	switch g.tp.Int(0, 3, "hubjump") {
	case 0:
		dest = v
	case 1:
		dest = g.bin("+", v, &Expr{K: eStr, S: ""})
	case 2:
		dest = g.bin("+", &Expr{K: eStr, S: ""}, v)
	default:
		// "R" + string(cnt % k + 1)
		dest = g.bin("+", &Expr{K: eStr, S: "R"}, &Expr{K: eCall, S: "string", A: []*Expr{g.bin("+", g.bin("%", &Expr{K: eVar, S: cnt}, numLit(float64(k))), numLit(1))}})
	}
	hub.Body = append(hub.Body, &Stmt{K: sJumpE, E: dest})
	p.Nodes = append(p.Nodes, hub)
	for i := 1; i <= k; i++ {
		n := &Node{Title: fmt.Sprintf("R%d", i)}
		if g.tp.Chance(g.cfg.TrackingPct, "tracking") {
			n.Tracking = []string{"never", "always", "never", "always", "default", "Always", "yes", "sometimes"}[g.tp.Int(0, 7, "trackkind")] // only "never" switches counting off
		}
		n.Body = append(n.Body, g.line())
		n.Body = append(n.Body, g.body(1)...)
		n.Body = append(n.Body, &Stmt{K: sJump, Target: "Hub"})
		p.Nodes = append(p.Nodes, n)
	}
	if g.cfg.EnterProbe {
		for _, n := range p.Nodes {
			n.Body = append([]*Stmt{{K: sCall, E: &Expr{K: eCall, S: "enter", A: []*Expr{{K: eStr, S: n.Title}}}}}, n.Body...)
		}
	}
	return p
}

// deepChain builds a chain of blocks nested `depth` deep (if-bodies and option bodies alternating at
// random), one or two statements per level, so that deep continuation stacks are reached with small
// scripts. The innermost body ends with `tail` (e.g. a stop or a jump) when given.
func (g *gen) deepChain(depth int, tail *Stmt) *Stmt {
	var inner []*Stmt
	inner = append(inner, g.line())
	if tail != nil {
		inner = append(inner, tail, g.line())
	}
	var cur *Stmt
	for d := depth; d >= 1; d-- {
		body := inner
		if g.tp.Bool("chainkind") {
			cur = &Stmt{K: sIf, Clauses: []*Clause{{Cond: &Expr{K: eBool, B: true}, Body: body}}}
		} else {
			o := &Option{Line: g.lineS(true), Body: body}
			cur = &Stmt{K: sOptions, Options: []*Option{o}}
			if g.tp.Chance(30, "chainsibling") {
				cur.Options = append(cur.Options, &Option{Line: g.lineS(true)})
			}
		}
		inner = []*Stmt{cur}
		if g.tp.Chance(40, "chainafter") {
			inner = append(inner, g.line())
		}
	}
	return cur
}

// addDeepChain puts a deep chain into a random node of p.
func (g *gen) addDeepChain(p *Program, tailKinds []string) int {
	depth := g.tp.Int(6, 12, "chaindepth")
	var tail *Stmt
	switch tailKinds[g.tp.Int(0, len(tailKinds)-1, "chaintail")] {
	case "stop":
		tail = &Stmt{K: sStop}
	case "jump":
		tail = &Stmt{K: sJump, Target: p.Nodes[g.tp.Int(0, len(p.Nodes)-1, "chaintarget")].Title}
	}
	n := p.Nodes[g.tp.Int(0, len(p.Nodes)-1, "chainnode")]
	ch := g.deepChain(depth, tail)
	at := g.tp.Int(0, len(n.Body), "chainat")
	// keep option groups apart
	body := append([]*Stmt{}, n.Body[:at]...)
	body = append(body, g.line(), ch, g.line())
	body = append(body, n.Body[at:]...)
	n.Body = body
	return depth
}

// renameNode gives a node another title and rewrites every mention of the old one: plain jumps become jumps by a
// string literal (a title with blanks in it cannot be written as a bare word), string literals anywhere else
// (entry probes, visit counters, computed jumps, variables that hold titles) are replaced.
func renameNode(p *Program, old, neu string) {
	var ex func(e *Expr)
	ex = func(e *Expr) {
		if e == nil {
			return
		}
		if e.K == eStr && e.S == old {
			e.S = neu
		}
		for _, a := range e.A {
			ex(a)
		}
	}
	line := func(l *LineS) {
		if l == nil {
			return
		}
		ex(l.Cond)
		for i := range l.Parts {
			ex(l.Parts[i].E)
		}
	}
	for _, n := range p.Nodes {
		if n.Title == old {
			n.Title = neu
		}
		walkStmts(n.Body, func(s *Stmt) {
			if s.K == sJump && s.Target == old {
				s.K, s.Target, s.E = sJumpE, "", &Expr{K: eStr, S: neu}
			}
			ex(s.E)
			line(s.Line)
			for _, o := range s.Options {
				line(o.Line)
			}
			for _, c := range s.Clauses {
				ex(c.Cond)
			}
			for i := range s.Args {
				ex(s.Args[i].E)
			}
		})
	}
}
