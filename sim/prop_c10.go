package zz_verif_sim

// C10 — pending commands: completion schedules on a fake clock with gated
// handler goroutines. While an invocation is unreleased every Next must return
// the waiting error at once (no blocking: bubble deadlock; no waiting on a
// sleeper: fake time must not move), without side effects; after the release
// the dialogue resumes where the model says, an error is surfaced once, and
// every executed command statement reached its handler exactly once with its
// arguments. <<wait n>> must still be waiting 1 ns (1 us for non-dyadic n)
// before t0+n.

import (
	"fmt"
	"time"
)

func c10World(tp *Tape, env *Env) (*Plan, *Violation) {
	cfg := &GenCfg{
		MaxNodes: 3, MaxStmts: 5, MaxDepth: 2, MaxTotal: 24,
		WLine: 6, WOptions: 2, WIf: 2, WSet: 3, WJump: 1, WStop: 0, WCall: 1, WCommand: 8, WWait: tp.Int(0, 4, "wwait"),
		NVars: [3]int{2, 1, 1}, Probes: true, ExprDepth: 1,
		InlinePct: 20, CondPct: 20, NonASCII: tp.Bool("nonascii"),
	}
	cfg.Handlers = drawHandlers(tp, 3)
	if len(cfg.Handlers) == 0 {
		cfg.Handlers = []HandlerSpec{{Name: "c0", Shape: handlerShapes[tp.Int(0, len(handlerShapes)-1, "shape")], Params: []string{"int", "string"}}}
	}
	if tp.Chance(15, "withstops") {
		cfg.WStop = 2
	}
	cfg.ReregInArgs = tp.Chance(20, "rereginargs")
	g := &gen{tp: tp, cfg: cfg}
	prog := g.program()
	if cfg.WWait > 0 && tp.Chance(10, "hostwait") {
		// the host registers a command of its own under the name wait: from then on <<wait n>> is the host's command
		// like any other (invoked once with n, complete when the host says so), not the built-in sleep
		cfg.Handlers = append(cfg.Handlers, HandlerSpec{Name: "wait", Shape: handlerShapes[tp.Int(0, len(handlerShapes)-1, "waitshape")], Params: []string{"float64"}})
		for _, n := range prog.Nodes {
			walkStmts(n.Body, func(s *Stmt) {
				if s.K == sWait {
					s.K, s.Cmd = sCommand, "wait"
					s.Args = []CmdArg{{E: s.E}}
					s.E = nil
				}
			})
		}
		env.St.fault("host_registers_its_own_wait")
	}
	layout := genLayout(tp)
	w := World{Readers: distribute(tp, prog, layout, 1)}
	hostHandlers := cfg.Handlers
	if cfg.WStop > 0 {
		// a host-registered "stop" must never be reached by <<stop>> (the model does not know this handler: an
		// invocation of it shows up as one invocation too many)
		hostHandlers = append(append([]HandlerSpec{}, hostHandlers...), HandlerSpec{Name: "stop", Shape: handlerShapes[tp.Int(0, len(handlerShapes)-1, "stopshape")]})
	}
	w.Host = HostSpec{Storer: []string{"rec", "mem"}[tp.Int(0, 1, "storer")], Probes: true, Seed: "s1", Handlers: hostHandlers, Scheds: drawScheds(tp, true), Reentrant: tp.Chance(15, "reentrant")}
	m := newModel(prog, cfg.Handlers, w.Host.Scheds)
	dc := &DriveCfg{MaxOps: 40, Vars: g.vars, WritePct: tp.Int(0, 15, "writepct")}
	if tp.Chance(25, "reregworld") {
		for _, hs := range cfg.Handlers {
			dc.Reregister = append(dc.Reregister, hs.Name)
		}
	}
	ops, choices := driveTape(tp, m, dc, env.St)
	if m.discard != "" || m.faulted {
		env.St.inc("discarded", 1)
		return nil, nil
	}
	// the model's view of every invocation goes into the plan: replay needs no model
	var invs []MInv
	for _, inv := range m.invs {
		invs = append(invs, *inv)
	}
	plan := &Plan{Harness: 1, Property: "C10", Program: prog, Layout: &layout, World: w, Ops: ops,
		Extra: map[string]any{"choices": choices, "model_invocations": invs}}

	// an alternative completion schedule for the same world (same results, other timing)
	hasWrites := false
	for _, o := range ops {
		if o.K == "write" || o.K == "clear" || o.K == "advance" {
			hasWrites = true
		}
	}
	if !hasWrites && len(m.invs) > 0 {
		alt := make([]Sched, len(w.Host.Scheds))
		for i, s := range w.Host.Scheds {
			alt[i] = Sched{Err: s.Err}
			switch tp.Int(0, 2, "altkind") {
			case 0:
				alt[i].Immediate = true
			case 1:
				alt[i].Polls = 0
			case 2:
				alt[i].Polls = tp.Int(1, 4, "altpolls")
			}
		}
		m2 := newModel(prog, cfg.Handlers, alt)
		ops2, _ := buildPathOps(m2, choices, 0, 80)
		if m2.discard == "" && !m2.faulted {
			plan.Extra["alt_scheds"] = alt
			plan.Extra["alt_ops"] = ops2
		}
	}

	env.St.inc("cases", 1)
	env.St.inc("ops", int64(len(ops)))
	env.St.inc("invocations", int64(len(m.invs)))
	env.St.inc("waits", int64(len(m.waits)))
	nPolls := 0
	for _, o := range ops {
		if o.Note == "poll" {
			nPolls++
		}
	}
	for _, inv := range m.invs {
		env.St.probe("shape." + m.handlers[inv.Name].Shape)
		if inv.Err {
			env.St.probe("command_error_surfaced")
		}
	}
	for i := range ops {
		if ops[i].K == "advance" && i+1 < len(ops) && ops[i+1].Note == "poll" {
			env.St.probe("wait_polled_one_tick_before_deadline")
			break
		}
	}
	if len(m.invs)+len(m.waits) >= 1 && nPolls >= 1 {
		env.St.distinct("nontrivial", hashStr(fmt.Sprint(hashJSON(prog)), fmt.Sprint(hashJSON(ops))))
		env.St.distinct("schedules", hashStr(scheduleShape(ops)))
	}
	env.St.sample(map[string]any{"script": readerTexts(&w), "ops": summarizeOps(ops), "handlers": cfg.Handlers, "scheds": w.Host.Scheds})
	journal(plan)
	return plan, c10Exec(plan, env.St)
}

func scheduleShape(ops []Op) string {
	s := ""
	for _, o := range ops {
		switch o.K {
		case "next":
			if o.Exp != nil && o.Exp.Kind == rWaiting {
				s += "w"
			} else {
				s += "n"
			}
		case "release":
			if o.Err {
				s += "E"
			} else {
				s += "R"
			}
		case "advance":
			s += "a"
		case "write", "clear":
			s += "h"
		}
	}
	return s
}

func decodeExtra[T any](plan *Plan, key string) (T, bool) {
	var out T
	v, ok := plan.Extra[key]
	if !ok || v == nil {
		return out, false
	}
	if t, ok := v.(T); ok {
		return t, true
	}
	b, err := jsonMarshal(v)
	if err != nil {
		return out, false
	}
	if err := jsonUnmarshal(b, &out); err != nil {
		return out, false
	}
	return out, true
}

func c10Exec(plan *Plan, st *Stats) *Violation {
	v, tr1 := c10Run(plan, plan.World, plan.Ops, st, true)
	if v != nil {
		return v
	}
	alt, ok1 := decodeExtra[[]Sched](plan, "alt_scheds")
	ops2, ok2 := decodeExtra[[]Op](plan, "alt_ops")
	if ok1 && ok2 && tr1 != nil {
		w2 := plan.World
		w2.Host.Scheds = alt
		v2, tr2 := c10Run(plan, w2, ops2, st, false)
		if v2 != nil {
			v2.Note = "under the alternative completion schedule: " + v2.Note
			return v2
		}
		if tr2 != nil {
			a, b := filterWaiting(tr1.Resps), filterWaiting(tr2.Resps)
			// both runs are cut by their op budgets, possibly at different points: compare the common prefix
			n := len(a)
			if len(b) < n {
				n = len(b)
			}
			for i := 0; i < n; i++ {
				if respDiff(a[i], b[i]) != "" {
					return &Violation{Clause: "C10.schedule-variance", OpIndex: i, Expected: a[i], Observed: b[i], Note: "the trace without waiting responses depends on the completion schedule"}
				}
			}
			if st != nil {
				st.inc("schedule_pairs_compared", 1)
			}
		}
	}
	return nil
}

func filterWaiting(rs []Resp) []Resp {
	var out []Resp
	for _, r := range rs {
		if r.Kind == rWaiting || r.Kind == "-" || r.Kind == "skipped" {
			continue
		}
		r.Err = ""
		out = append(out, r)
	}
	return out
}

func c10Run(plan *Plan, w World, ops []Op, st *Stats, primary bool) (*Violation, *Trace) {
	var t0 time.Time
	var prevStore map[string]string
	pendingIsWait := false
	hk := &execHooks{bubble: true, callsClause: "C10.calls"}
	hk.beforeOp = func(i int, op *Op, h *Host) { t0 = time.Now() }
	hk.afterOp = func(i int, op *Op, got *Resp, h *Host, tr *Trace) *Violation {
		store := tr.Stores[len(tr.Stores)-1]
		defer func() { prevStore = store }()
		if op.K != "next" || got == nil {
			return nil
		}
		if h.staleHandler != "" {
			return &Violation{Clause: "C10.handler-once", OpIndex: i, Observed: h.staleHandler, Note: "a command statement invoked a handler that the host had replaced: an executed command statement invokes the handler registered under its name"}
		}
		if d := time.Since(t0); d != 0 {
			return &Violation{Clause: "C10.time-moved", OpIndex: i, Observed: d.String(), Note: "simulated time advanced during Next: the call waited on something"}
		}
		if got.Kind == rPanic {
			return &Violation{Clause: "C10.resume", OpIndex: i, Expected: op.Exp, Observed: got, Note: "Next panicked"}
		}
		if op.Exp == nil {
			return nil
		}
		if op.Exp.Kind == rWaiting {
			if got.Kind != rWaiting {
				clause := "C10.not-waiting"
				if pendingIsWait {
					clause = "C10.wait-early"
				}
				return &Violation{Clause: clause, OpIndex: i, Expected: op.Exp, Observed: got, Note: "the command has not reported completion"}
			}
			if op.Note == "poll" {
				if evs := tr.Events[len(tr.Events)-1]; len(evs) > 0 {
					return &Violation{Clause: "C10.side-effect", OpIndex: i, Observed: evs, Note: "a poll of a pending command had side effects"}
				}
				if prevStore != nil && !sameStrMap(prevStore, store) {
					return &Violation{Clause: "C10.side-effect", OpIndex: i, Expected: fmtStrMap(prevStore), Observed: fmtStrMap(store), Note: "a poll of a pending command changed variables"}
				}
			}
			return nil
		}
		if got.Kind == rWaiting {
			// completion has been reported (release + quiescence, or deadline passed): the dialogue must resume
			if pendingIsWait {
				// the property states no upper bound for <<wait>>: not judged
				return &Violation{Clause: "cut.wait-late", OpIndex: i}
			}
			return &Violation{Clause: "C10.resume", OpIndex: i, Expected: op.Exp, Observed: got, Note: "still waiting after completion was reported"}
		}
		if op.Exp.Kind == rError {
			if got.Kind != rError {
				return &Violation{Clause: "C10.error-once", OpIndex: i, Expected: op.Exp, Observed: got, Note: "the error reported by the command was not surfaced"}
			}
			return nil
		}
		if got.Kind == rError && op.Exp.Kind != rError {
			return &Violation{Clause: "C10.error-once", OpIndex: i, Expected: op.Exp, Observed: got, Note: "an error was surfaced although none (or none anymore) is due"}
		}
		if d := respDiff(*op.Exp, *got); d != "" {
			return &Violation{Clause: "C10.resume", OpIndex: i, Expected: op.Exp, Observed: got, Note: "does not resume at the statement after the command (" + d + ")"}
		}
		return nil
	}
	// which pending invocation is a wait: derive from the ops (advance ops only occur for waits before polls)
	waitAhead := make([]bool, len(ops))
	{
		isWait := false
		for i := range ops {
			if ops[i].K == "advance" {
				isWait = true
			}
			if ops[i].K == "release" {
				isWait = false
			}
			if ops[i].K == "next" && ops[i].Exp != nil && ops[i].Exp.Kind != rWaiting {
				waitAhead[i] = isWait
				isWait = false
				continue
			}
			waitAhead[i] = isWait
		}
	}
	inner := hk.beforeOp
	hk.beforeOp = func(i int, op *Op, h *Host) {
		pendingIsWait = waitAhead[i]
		inner(i, op, h)
	}
	tr, v, h := runWorld(&w, ops, hk, st)
	if v != nil {
		switch v.Clause {
		case "load.panic", "load.error":
			if st != nil {
				st.inc("assumption_breaks.C05", 1)
			}
			return nil, nil
		case "deadlock":
			return &Violation{Clause: "C10.blocked", OpIndex: -1, Observed: v.Observed, Note: "Next blocked on a pending command"}, nil
		case "cut.wait-late":
			if st != nil {
				st.inc("waits_late_not_judged", 1)
			}
			return nil, nil
		}
		return v, nil
	}
	// every executed command statement reached its handler exactly once, in order, with its arguments
	minvs, _ := decodeExtra[[]MInv](plan, "model_invocations")
	if !primary {
		minvs = nil
		// the alternative run executes the same statements: compare with the primary's count only
	}
	if primary && h != nil {
		n := h.nInvs()
		if n != len(minvs) {
			return &Violation{Clause: "C10.handler-once", OpIndex: -1, Expected: len(minvs), Observed: n, Note: "number of handler invocations differs from the number of executed command statements"}, nil
		}
		specs := map[string]HandlerSpec{}
		for _, hs := range w.Host.Handlers {
			specs[hs.Name] = hs
		}
		for i := 0; i < n; i++ {
			ri, mi := h.inv(i), minvs[i]
			if ri.Name != mi.Name {
				return &Violation{Clause: "C10.handler-once", OpIndex: -1, Expected: mi.Name, Observed: ri.Name, Note: fmt.Sprintf("invocation %d reached another handler", i)}, nil
			}
			hs := specs[mi.Name]
			if len(ri.Args) != len(mi.Args) {
				return &Violation{Clause: "C10.args", OpIndex: -1, Expected: mi.Args, Observed: ri.Args, Note: fmt.Sprintf("invocation %d (%s): argument count", i, mi.Name)}, nil
			}
			for j := range mi.Args {
				var exp string
				ok := true
				if hs.Shape[:3] == "raw" {
					exp = mi.Args[j].canon()
				} else {
					k := hs.Vari
					if j < len(hs.Params) {
						k = hs.Params[j]
					}
					exp, ok = expectedArgCanon(k, mi.Args[j])
				}
				if ok && exp != ri.Args[j] {
					return &Violation{Clause: "C10.args", OpIndex: -1, Expected: exp, Observed: ri.Args[j], Note: fmt.Sprintf("invocation %d (%s): argument %d", i, mi.Name, j)}, nil
				}
			}
		}
	}
	return nil, tr
}
