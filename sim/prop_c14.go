package zz_verif_sim

// C14 — markup parsing has no memory. Real-vs-real: (a) every call of a history
// on one LineParser value must equal the same call on a fresh parser, failing
// lines included; (b) the same marked-up line statement reached through
// different dialogue prefixes must carry identical attributes.

import (
	"encoding/json"
	"fmt"
	"strings"

	"github.com/remieven/ysgo/markup"
)

var mkWords = []string{"hello", "x", "héllo", "日本", "a b", "  ", "cat", "ünï", "q", "1", "Mr", "…"}
var mkNames = []string{"a", "b", "em", "wave", "c1", "é", "character", "character"} // "character" is also what "Name: text" turns into

func genMarkupLine(tp *Tape, id string, allowFail bool) (string, bool) {
	return genMarkupLineAt(tp, id, allowFail, false)
}

// genMarkupLineAt: with idLast the id word closes the line, so that the line can START with any chunk
// (an escaped bracket, a marker); a line may also end in whitespace.
func genMarkupLineAt(tp *Tape, id string, allowFail, idLast bool) (string, bool) {
	if idLast {
		body, fails := genMarkupLineAt(tp, "", allowFail, false)
		body = strings.TrimLeft(body, " ")
		return body + " " + id + []string{"", " ", "  "}[tp.Int(0, 2, "trailws")], fails
	}
	var sb strings.Builder
	// a character prefix shared by several lines, with varying whitespace after the colon
	if tp.Chance(30, "charprefix") {
		sb.WriteString([]string{"Mae", "Bob", "Zoë"}[tp.Int(0, 2, "charname")] + []string{": ", ":", ":   ", " : ", ":\t"}[tp.Int(0, 4, "charspace")])
	}
	sb.WriteString(id)
	var open []string
	fails := false
	n := tp.Int(1, 7, "nchunks")
	for i := 0; i < n; i++ {
		// chunks are usually separated by a space, sometimes glued to what precedes them
		sp := " "
		if tp.Chance(35, "glue") {
			sp = ""
		}
		switch tp.Pick([]int{6, 5, 3, 2, 2, 2, 1, 2}, "chunk") {
		case 0:
			sb.WriteString(sp + mkWords[tp.Int(0, len(mkWords)-1, "word")])
		case 1: // open marker, possibly with properties
			name := mkNames[tp.Int(0, len(mkNames)-1, "name")]
			open = append(open, name)
			m := "[" + name
			switch tp.Int(0, 5, "props") {
			case 5:
				m += " trimwhitespace=true"
			case 1:
				m += "=" + []string{"2", "x", "true", `"q r"`, "1.5"}[tp.Int(0, 4, "short")]
			case 2:
				m += " k=v"
			case 3:
				m += ` x=1.5 y="q r" z=true`
			case 4:
				m += " n=12 "
			}
			sb.WriteString(sp + m + "]")
		case 2: // close
			if len(open) > 0 {
				k := tp.Int(0, len(open)-1, "closeidx")
				sb.WriteString("[/" + open[k] + "]")
				open = append(open[:k], open[k+1:]...)
			} else {
				sb.WriteString(" w")
			}
		case 3: // close all
			sb.WriteString("[/]")
			open = nil
		case 4: // self-closing
			sb.WriteString(sp + "[" + mkNames[tp.Int(0, len(mkNames)-1, "name")] + []string{" /]", " t=3 /]", "/]", " trimwhitespace=false /]", " trimwhitespace=true /]"}[tp.Int(0, 4, "self")] + []string{" ", "", "  "}[tp.Int(0, 2, "afterself")])
		case 5: // escapes
			sb.WriteString([]string{`\[`, `\]`, `\[x\]`}[tp.Int(0, 2, "esc")])
		case 6: // replacement markers
			sb.WriteString(" " + []string{
				`[select value=b a="A" b="B" /]`,
				`[plural value=2 one="cat" other="% cats" /]`,
				`[plural value=1 one="a cat" other="% cats" /]`,
				`[ordinal value=3 one="%st" two="%nd" few="%rd" other="%th" /]`,
				`[nomarkup][x] raw [/b][/nomarkup]`,
				`[select value=zz a="A" /]`,
				// the open forms, closed by [/] or by name, succeeding and failing
				`[select value=b a="A" b="B"]x[/]`,
				`[select value=zz a="A"]x[/]`,
				`[plural value=3 one="cat" other="% cats"]n[/plural]`,
				`[plural value=x one="a"]y[/]`,
				`[ordinal value=2 one="%st" two="%nd" few="%rd" other="%th"]o[/]`,
				`[ordinal one="%st"]z[/]`,
				`[nomarkup]n[/]`,
				// a case the value selects is missing, and the cases that are there are not a leading run
				`[plural value=3 one="a" two="b" other="c" /]`,
				`[ordinal value=2 one="x" few="y" other="z" /]`,
				`[plural value=1 two="b" many="m" /]`,
			}[tp.Int(0, 15, "repl")])
		case 7:
			sb.WriteString([]string{": ", ":", " : "}[tp.Int(0, 2, "colon")])
		}
	}
	if allowFail && tp.Chance(25, "failline") {
		fails = true
		kinds := []string{"[a", "[a x=]", "[/zz]", `[a x="abc`, "[=]", "[a b]", "[plural value=x /]", "[", "[a x=1.5.2]", "[/",
			// values that begin like a number, an identifier or a string and go wrong late: whatever the parser had
			// collected by then must not reach the next line
			"[big size=99999999999999999999]", "[big size=٣]", "[a n=12345678901234567890123 /]", "[a n=１２]", "[a=99999999999999999999]t[/a]",
			"[a x=1.5e]", "[a x=-]", "[a x=1.]", `[a x="q\`, "[a x=tru]", "[a b=1 c=99999999999999999999 /]", "[a é=1]", "[wave٣ /]", "[a x=9223372036854775808]",
			"[plural value=99999999999999999999 one=\"a\" other=\"b\" /]", "[ordinal value=٣ one=\"a\" other=\"b\" /]", "[a x=1.5 y=99999999999999999999.5 /]"}
		sb.WriteString(" " + kinds[tp.Int(0, len(kinds)-1, "failkind")])
	} else if len(open) > 0 && tp.Chance(70, "closeall") {
		sb.WriteString("[/]")
	}
	return sb.String(), fails
}

type parseCanon struct {
	Err   bool               `json:"err"`
	Panic string             `json:"panic,omitempty"`
	Text  string             `json:"text"`
	Attrs []markup.Attribute `json:"attrs"`
}

func parseWith(lp *markup.LineParser, line string) (out parseCanon) {
	defer func() {
		if p := recover(); p != nil {
			out = parseCanon{Panic: fmt.Sprint(p)}
		}
	}()
	r, err := lp.ParseMarkup(line)
	if err != nil {
		return parseCanon{Err: true}
	}
	if r == nil {
		return parseCanon{Err: true, Text: "<nil result>"}
	}
	return parseCanon{Text: r.Text, Attrs: r.Attributes}
}

func canonJSON(v any) string {
	b, _ := json.Marshal(v)
	return string(b)
}

func c14World(tp *Tape, env *Env) (*Plan, *Violation) {
	if tp.Bool("runnerpart") {
		if tp.Chance(25, "looprunner") {
			return c14Loop(tp, env)
		}
		return c14Runner(tp, env)
	}
	n := tp.Int(2, 12, "nlines")
	long := tp.Chance(6, "longhistory")
	if long {
		n = tp.Int(33, 160, "nlineslong") // more lines than any small table of recent results holds
	}
	var lines []string
	nfail := 0
	for i := 0; i < n; i++ {
		if i > 0 && tp.Chance(20, "repeat") {
			// the very same input again, later in the history (the first line more often than others)
			k := 0
			if !tp.Chance(40, "repeatfirst") {
				k = tp.Int(0, len(lines)-1, "repeatidx")
			}
			lines = append(lines, lines[k])
			env.St.probe("history_repeats_an_earlier_line")
			continue
		}
		l, f := genMarkupLineAt(tp, fmt.Sprintf("M%d", i), true, tp.Chance(40, "idlast"))
		if tp.Chance(20, "leadingws") {
			// handed to the parser directly a line may begin with white space
			l = []string{" ", "  ", "\t", " \t "}[tp.Int(0, 3, "leadingwskind")] + l
		}
		lines = append(lines, l)
		if f {
			nfail++
		}
	}
	if long {
		lines = append(lines, lines[0], lines[1], lines[len(lines)/2])
		env.St.probe("history_over_32_lines_then_the_first_again")
	}
	plan := &Plan{Harness: 1, Property: "C14", Extra: map[string]any{"lines": lines}}
	env.St.sample(map[string]any{"parser_history": lines})
	journal(plan)
	v := c14ParserExec(lines, env.St)
	return plan, v
}

func c14ParserExec(lines []string, st *Stats) *Violation {
	var reused markup.LineParser
	nErr, nAttr := 0, 0
	var kept []parseCanon
	var keptCanon []string
	var keptIdx []int
	for i, l := range lines {
		var fresh markup.LineParser
		a, b := parseWith(&reused, l), parseWith(&fresh, l)
		if b.Panic != "" || a.Panic != "" {
			if (a.Panic != "") != (b.Panic != "") {
				return &Violation{Clause: "C14.parser-history", OpIndex: i, Expected: b, Observed: a, Note: "panics only with (or only without) a history"}
			}
			return nil // a panic on a fresh parser is C15's subject
		}
		if ca, cb := canonJSON(a), canonJSON(b); ca != cb {
			return &Violation{Clause: "C14.parser-history", OpIndex: i, Expected: b, Observed: a, Note: fmt.Sprintf("line %q parsed after %d earlier lines differs from the same line on a fresh parser", l, i)}
		}
		if a.Err {
			nErr++
		}
		nAttr += len(a.Attrs)
		// a host may keep a result and read it later (a backlog): it is still the result of parsing THAT line
		kept = append(kept, a)
		keptCanon = append(keptCanon, canonJSON(b))
		keptIdx = append(keptIdx, i)
		for j := range kept {
			if c := canonJSON(kept[j]); c != keptCanon[j] {
				return &Violation{Clause: "C14.parser-history", OpIndex: keptIdx[j], Expected: keptCanon[j], Observed: c, Note: fmt.Sprintf("the result of parsing line %d (%q), kept by the caller, changed when line %d (%q) was parsed on the same parser", keptIdx[j], lines[keptIdx[j]], i, l)}
			}
		}
		if len(kept) > 6 {
			kept, keptCanon, keptIdx = kept[1:], keptCanon[1:], keptIdx[1:]
		}
	}
	if st != nil {
		st.inc("cases", 1)
		st.inc("parse_calls", int64(len(lines)))
		if nErr > 0 && nErr < len(lines) {
			st.probe("history_with_failed_parse_in_the_middle")
		}
		if nAttr >= 2 {
			st.distinct("nontrivial", hashStr(strings.Join(lines, "\n")))
		}
	}
	return nil
}

func c14Runner(tp *Tape, env *Env) (*Plan, *Violation) {
	nopt := tp.Int(2, 4, "nopt")
	var sb strings.Builder
	sb.WriteString("title: Start\n---\n")
	id := 0
	for o := 0; o < nopt; o++ {
		fmt.Fprintf(&sb, "-> option %d\n", o)
		k := tp.Int(0, 4, "bodylines")
		for i := 0; i < k; i++ {
			id++
			l, _ := genMarkupLine(tp, fmt.Sprintf("P%d", id), true)
			// a tag, a comment or a condition-free line end: the text handed to the markup parser then ends in whitespace
			sb.WriteString("    " + l + []string{"", " #t1", " // note", "  "}[tp.Int(0, 3, "linetail")] + "\n")
		}
	}
	ns := tp.Int(1, 3, "nshared")
	for i := 0; i < ns; i++ {
		if tp.Chance(35, "sharedidlast") {
			// the line starts with an (empty) inline expression so that any chunk - also an escaped bracket - can come first
			l, _ := genMarkupLineAt(tp, fmt.Sprintf("SH%d", i), tp.Chance(30, "sharedmayfail"), true)
			sb.WriteString(`{""}` + l + "\n")
		} else {
			l, _ := genMarkupLine(tp, fmt.Sprintf("SH%d", i), tp.Chance(30, "sharedmayfail"))
			sb.WriteString(l + "\n")
		}
	}
	sb.WriteString("===\n")
	w := World{Readers: []ReaderSpec{{Text: sb.String()}}, Host: HostSpec{Storer: "default", Seed: "s1"}}
	plan := &Plan{Harness: 1, Property: "C14", World: w, Extra: map[string]any{"options": nopt, "shared": ns}}
	env.St.sample(map[string]any{"script": sb.String()})
	journal(plan)
	return plan, c14RunnerExec(plan, env.St)
}

// c14Loop: a hub node shown again and again by one runner. Its first lines are the same text every
// round; the filler lines between them change with a counter, so the runner's parser sees many
// distinct inputs between two showings of the same line.
func c14Loop(tp *Tape, env *Env) (*Plan, *Violation) {
	ns := tp.Int(1, 3, "nshared")
	nf := tp.Int(1, 8, "nfiller")
	rounds := tp.Int(2, 12, "rounds")
	if tp.Chance(25, "longloop") {
		nf, rounds = tp.Int(6, 12, "nfillerlong"), tp.Int(6, 14, "roundslong")
	}
	var sb strings.Builder
	sb.WriteString("title: Start\n---\n<<declare $n = 0>>\n<<jump Hub>>\n===\ntitle: Hub\n---\n")
	for i := 0; i < ns; i++ {
		l, _ := genMarkupLine(tp, fmt.Sprintf("SH%d", i), tp.Chance(30, "sharedmayfail"))
		sb.WriteString(l + "\n")
	}
	nopt := 0
	if tp.Chance(50, "loopoptions") {
		// an option group of marked-up option lines (bodies empty): all its options go through the same parser
		nopt = tp.Int(1, 3, "nloopopts")
		for i := 0; i < nopt; i++ {
			l, _ := genMarkupLine(tp, fmt.Sprintf("OPT%d", i), tp.Chance(10, "optmayfail"))
			sb.WriteString("-> " + l + "\n")
		}
	}
	sb.WriteString("<<set $n += 1>>\n")
	for i := 0; i < nf; i++ {
		l, _ := genMarkupLine(tp, fmt.Sprintf("P%d", i), tp.Chance(20, "fillermayfail"))
		sb.WriteString(l + " {$n}\n")
	}
	var dyn []string
	failLine := false
	if tp.Chance(50, "dynline") {
		// one statement whose text is an inline expression only: plain the first time it is shown, then markup,
		// a speaker prefix, plain again ... - what it parses to is a function of the substituted line alone
		pool := []string{"plain words", "[b]x[/b] y", "Zed: hi there", "[wave a=1]w[/wave] t", "é [em]日本[/em]", "again plain", "[a/] z", "Mae: [b]q[/b]", "[nomarkup][x][/nomarkup]", "x [b]unclosed"}
		dyn = append(dyn, "", "plain start")
		for r := 2; r <= rounds; r++ {
			dyn = append(dyn, pool[tp.Int(0, len(pool)-1, "dynvalue")])
		}
		// inserted before the fillers: <<set $m = V[$n]>> as an if chain, shown after them
		var chain strings.Builder
		for r := 1; r <= rounds; r++ {
			kw := "elseif"
			if r == 1 {
				kw = "if"
			}
			fmt.Fprintf(&chain, "<<%s $n == %d>>\n    <<set $m = \"%s\">>\n", kw, r, dyn[r])
		}
		chain.WriteString("<<endif>>\n")
		sb.WriteString(chain.String())
		if tp.Chance(40, "failinginterpolation") {
			// a line whose inline expression fails at run time, right before the dynamic line
			sb.WriteString("FAIL some text {nosuchfunction()} more\n")
			failLine = true
		}
		sb.WriteString("DYN {$m}\n")
	}
	fmt.Fprintf(&sb, "<<if $n < %d>>\n    <<jump Hub>>\n<<endif>>\n===\n", rounds)
	text := sb.String()
	if dyn != nil {
		text = strings.Replace(text, "<<declare $n = 0>>\n", "<<declare $n = 0>>\n<<declare $m = \"\">>\n", 1)
	}
	w := World{Readers: []ReaderSpec{{Text: text}}, Host: HostSpec{Storer: "default", Seed: "s1"}}
	plan := &Plan{Harness: 1, Property: "C14", World: w, Extra: map[string]any{"loop": true, "shared": ns, "filler": nf, "rounds": rounds, "loop_options": nopt, "dyn": dyn, "fail_line": failLine}}
	env.St.sample(map[string]any{"script": text})
	journal(plan)
	return plan, c14LoopExec(plan, env.St)
}

func c14LoopExec(plan *Plan, st *Stats) *Violation {
	ns, nf, rounds := extraInt(plan, "shared", 1), extraInt(plan, "filler", 1), extraInt(plan, "rounds", 2)
	h, pv := newHost(&plan.World)
	if pv != nil || h.loadErr != nil {
		if st != nil {
			st.inc("scripts_not_loaded", 1)
		}
		return nil
	}
	nopt := extraInt(plan, "loop_options", 0)
	per := ns + nf
	if nopt > 0 {
		per++
	}
	dyn, _ := decodeExtra[[]string](plan, "dyn")
	failLine, _ := plan.Extra["fail_line"].(bool)
	if len(dyn) > 0 {
		per++
	}
	if failLine {
		per++
	}
	first := make([]string, ns+1)
	attrs, distinctInputs := 0, 0
	for step := 0; step < rounds*per; step++ {
		r, el := h.NextEl(0)
		idx, round := step%per, step/per
		if failLine && idx == per-2 {
			if r.Kind != rError {
				return nil // not the error this world was built around: nothing to compare
			}
			if st != nil && round == 0 {
				st.probe("interpolation_failed_right_before_an_interpolated_line")
			}
			continue
		}
		if len(dyn) > 0 && idx == per-1 {
			// the dynamic line: exactly what a fresh parser makes of the substituted text
			if round+1 >= len(dyn) {
				return nil
			}
			line := "DYN " + dyn[round+1]
			var fresh markup.LineParser
			want := parseWith(&fresh, line)
			got := parseCanon{Err: true}
			switch r.Kind {
			case rLine:
				got = parseCanon{Text: el.Line.Text, Attrs: el.Line.Attributes}
				attrs += len(el.Line.Attributes)
			case rError:
			default:
				return nil
			}
			if want.Panic != "" {
				return nil
			}
			if canonJSON(want) != canonJSON(got) {
				return &Violation{Clause: "C14.runner-history", OpIndex: step, Expected: want, Observed: got, Note: fmt.Sprintf("the line %q shown in round %d (the statement's value was %q in the round before) differs from what a fresh parser makes of it", line, round, dyn[round])}
			}
			if round > 0 && st != nil && dyn[round+1] != dyn[round] {
				st.probe("one_statement_shown_with_different_substituted_text")
			}
			continue
		}
		if nopt > 0 && idx == ns {
			// the option group: every option's text and attributes, as in the first round
			c := "error"
			if r.Kind == rOptions {
				if len(el.Options) != nopt {
					return nil
				}
				var all []parseCanon
				for _, o := range el.Options {
					all = append(all, parseCanon{Text: o.Line.Text, Attrs: o.Line.Attributes})
					attrs += len(o.Line.Attributes)
				}
				c = canonJSON(all)
			} else if r.Kind != rError {
				return nil
			}
			if round == 1 && st != nil && c != "error" {
				st.probe("marked_up_option_group_shown_again")
			}
			if round == 0 {
				first[ns] = c
			} else if first[ns] != c {
				return &Violation{Clause: "C14.runner-history", OpIndex: step, Expected: first[ns], Observed: c, Note: fmt.Sprintf("the option group shown in round %d differs from its first showing", round)}
			}
			continue
		}
		if r.Kind == rEnd || r.Kind == rPanic || r.Kind == rOptions {
			return nil // the markup produced something that changes the flow: not comparable position by position
		}
		if idx > ns || (nopt == 0 && idx >= ns) {
			if r.Kind == rLine {
				distinctInputs++
			}
			continue
		}
		c := "error"
		if r.Kind == rLine {
			if sharedID(r.Text) != fmt.Sprintf("SH%d", idx) {
				return nil
			}
			c = canonJSON(parseCanon{Text: el.Line.Text, Attrs: el.Line.Attributes})
			attrs += len(el.Line.Attributes)
		}
		if round == 0 {
			first[idx] = c
		} else if first[idx] != c {
			return &Violation{Clause: "C14.runner-history", OpIndex: step, Expected: first[idx], Observed: c, Note: fmt.Sprintf("line SH%d shown in round %d (after %d other lines) differs from its first showing", idx, round, step-idx)}
		}
	}
	if st != nil {
		st.inc("cases", 1)
		st.inc("dialogue_paths", 1)
		if distinctInputs >= 32 {
			st.probe("same_line_shown_again_after_32_other_inputs")
		}
		if attrs >= 2 {
			st.distinct("nontrivial", hashStr(string(plan.World.Readers[0].bytes())))
		}
	}
	return nil
}

func c14RunnerExec(plan *Plan, st *Stats) *Violation {
	nopt, _ := decodeExtra[int](plan, "options")
	if f, ok := plan.Extra["options"].(float64); ok {
		nopt = int(f)
	}
	type seen struct {
		canon string
		path  int
	}
	shared := map[string]seen{}
	order := 0
	attrs := 0
	for path := 0; path < nopt; path++ {
		h, pv := newHost(&plan.World)
		if pv != nil || h.loadErr != nil {
			if st != nil {
				st.inc("scripts_not_loaded", 1)
			}
			return nil // the markup grammar produced something Yarn's lexer refuses: not this property's subject
		}
		order = 0
		for step := 0; step < 24; step++ {
			arg := 0
			if step == 1 {
				arg = path
			}
			r, el := h.NextEl(arg)
			if r.Kind == rEnd || r.Kind == rPanic {
				break
			}
			if step == 0 {
				if r.Kind != rOptions || len(r.Opts) != nopt {
					return nil
				}
				continue
			}
			key := ""
			c := ""
			switch {
			case r.Kind == rLine && sharedID(r.Text) != "":
				key = sharedID(r.Text)
				c = canonJSON(parseCanon{Text: el.Line.Text, Attrs: el.Line.Attributes})
				attrs += len(el.Line.Attributes)
			case r.Kind == rError:
				// a failing line: identify shared ones by their order after the option body
				key = fmt.Sprintf("error#%d", order)
				c = "error"
				if !strings.Contains(r.Err, "SH") {
					key = ""
				}
			}
			order++
			if key == "" || !strings.HasPrefix(key, "SH") {
				continue
			}
			if prev, ok := shared[key]; ok {
				if prev.canon != c {
					return &Violation{Clause: "C14.runner-history", OpIndex: path, Expected: prev.canon, Observed: c, Note: fmt.Sprintf("line %s shown after choosing option %d differs from the same line after option %d", key, path, prev.path)}
				}
			} else {
				shared[key] = seen{c, path}
			}
		}
	}
	if st != nil {
		st.inc("cases", 1)
		st.inc("dialogue_paths", int64(nopt))
		if attrs >= 2 {
			st.distinct("nontrivial", hashStr(string(plan.World.Readers[0].bytes())))
		}
	}
	return nil
}

// sharedID finds the id word (SH<n>) of a shared line, which may follow a character prefix.
func sharedID(text string) string {
	for _, f := range strings.Fields(text) {
		if i := strings.Index(f, "SH"); i >= 0 && (i == 0 || f[i-1] == ':') {
			id := f[i:]
			for j, c := range id[2:] {
				if c < '0' || c > '9' {
					id = id[:2+j]
					break
				}
			}
			if len(id) > 2 {
				return id
			}
		}
	}
	return ""
}

func c14Replay(plan *Plan) *Violation {
	if lines, ok := decodeExtra[[]string](plan, "lines"); ok {
		return c14ParserExec(lines, nil)
	}
	if b, _ := plan.Extra["loop"].(bool); b {
		return c14LoopExec(plan, nil)
	}
	return c14RunnerExec(plan, nil)
}
