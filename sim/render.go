package zz_verif_sim

// Renderer: AST -> script text under a Layout. Layout never changes the AST the
// model interprets, so any layout-dependent meaning shows up as a divergence.

import (
	"strconv"
	"strings"
)

type Layout struct {
	Indent    string `json:"indent"`            // one indentation unit
	IndentIf  bool   `json:"indent_if"`         // indent the bodies of if clauses
	CRLF      bool   `json:"crlf"`              // \r\n line ends
	FinalNL   bool   `json:"final_nl"`          // newline after the last ===
	Deco      uint64 `json:"deco"`              // seed of the decoration PRNG; 0 = no decoration
	DecoPct   int    `json:"deco_pct"`          // chance of a blank/comment line before a statement
	TrailPct  int    `json:"trail_pct"`         // chance of a trailing comment
	CmdSpaces bool   `json:"cmd_spaces"`        // extra spaces inside << >>
	DeepDeco  bool   `json:"deep_deco"`         // decoration lines also inside indented bodies
	MixTabs   bool   `json:"mix_tabs"`          // unit is 8 columns; each line writes it either as 8 spaces or as one tab
	HdrSep    int    `json:"hdr_sep,omitempty"` // header lines: 0 "key: value", 1 "key:value", 2 "key:    value"
}

func genLayout(tp *Tape) Layout {
	l := Layout{Indent: "    ", FinalNL: true}
	switch tp.Int(0, 6, "indentkind") {
	case 6:
		l.Indent = "        "
		l.MixTabs = true
	case 0:
		l.Indent = "    "
	case 1:
		l.Indent = "\t"
	case 2:
		l.Indent = "  "
	case 3:
		l.Indent = " "
	case 4:
		l.Indent = strings.Repeat(" ", tp.Int(1, 8, "indentwidth"))
	case 5:
		l.Indent = "\t\t"
	}
	l.IndentIf = tp.Bool("indentif")
	l.CRLF = tp.Chance(20, "crlf")
	l.FinalNL = !tp.Chance(25, "nofinalnl")
	if tp.Chance(50, "deco") {
		l.Deco = tp.Uint64("decoseed") | 1
		l.DecoPct = tp.Int(5, 40, "decopct")
		l.TrailPct = tp.Int(0, 30, "trailpct")
		l.DeepDeco = true
	}
	l.CmdSpaces = tp.Chance(15, "cmdspaces")
	if tp.Chance(20, "hdrsep") {
		l.HdrSep = tp.Int(1, 2, "hdrsepkind")
	}
	return l
}

type renderer struct {
	l   Layout
	sb  strings.Builder
	rng splitmix
	nl  string
}

func fmtNumLit(n float64) string {
	return strconv.FormatFloat(n, 'f', -1, 64)
}

func isAtom(e *Expr) bool {
	switch e.K {
	case eNum, eBool, eStr, eVar, eCall, eNull:
		return true
	}
	return false
}

func renderExpr(e *Expr) string {
	var s string
	sub := func(x *Expr) string {
		r := renderExpr(x)
		if !isAtom(x) && x.Paren == 0 {
			return "(" + r + ")"
		}
		return r
	}
	switch e.K {
	case eNum:
		s = fmtNumLit(e.N)
	case eBool:
		if e.B {
			s = "true"
		} else {
			s = "false"
		}
	case eStr:
		s = `"` + e.S + `"`
	case eVar:
		s = "$" + e.S
	case eNull:
		s = "null"
	case eCall:
		args := make([]string, len(e.A))
		for i, a := range e.A {
			args[i] = renderExpr(a)
		}
		s = e.S + "(" + strings.Join(args, ", ") + ")"
	case eNeg:
		s = "-" + sub(e.A[0])
	case eNot:
		if e.Spell == 1 {
			s = "!" + sub(e.A[0])
		} else {
			s = "not " + sub(e.A[0])
		}
	case eBin:
		sp := binSpellings[e.Op]
		op := e.Op
		if len(sp) > 0 {
			op = sp[e.Spell%len(sp)]
		}
		s = sub(e.A[0]) + " " + op + " " + sub(e.A[1])
	}
	for i := 0; i < e.Paren; i++ {
		s = "(" + s + ")"
	}
	return s
}

func (r *renderer) lineText(l *LineS) string {
	var sb strings.Builder
	for _, p := range l.Parts {
		if p.E != nil {
			sb.WriteString("{" + renderExpr(p.E) + "}")
		} else {
			sb.WriteString(p.Text)
		}
	}
	return sb.String()
}

func (r *renderer) lineTail(l *LineS) string {
	s := ""
	if l.Cond != nil {
		s += " " + r.cmdOpen() + "if " + renderExpr(l.Cond) + r.cmdClose()
	}
	for _, t := range l.Tags {
		s += " #" + t
	}
	return s
}

func (r *renderer) cmdOpen() string {
	if r.l.CmdSpaces {
		return "<< "
	}
	return "<<"
}

func (r *renderer) cmdClose() string {
	if r.l.CmdSpaces {
		return " >>"
	}
	return ">>"
}

func (r *renderer) deco(depth int) {
	if r.l.Deco == 0 {
		return
	}
	if depth > 0 && !r.l.DeepDeco {
		return
	}
	for r.rng.chance(r.l.DecoPct) {
		switch r.rng.intn(6) {
		case 4: // whitespace-only line mixing spaces and tabs: it carries no indentation, so nothing is mixed
			r.sb.WriteString([]string{" \t", "\t ", "  \t  ", "\t\t "}[r.rng.intn(4)] + r.nl)
		case 5: // comment-only line behind mixed whitespace
			r.sb.WriteString([]string{" \t", "\t ", "    \t"}[r.rng.intn(3)] + "// note behind mixed whitespace" + r.nl)
		case 0:
			r.sb.WriteString(r.nl)
		case 1: // whitespace-only line, same indentation character as the file
			r.sb.WriteString(strings.Repeat(r.l.Indent, r.rng.intn(3)) + r.nl)
			if r.l.MixTabs {
				r.rng.next()
			}
		case 2: // comment at column 0
			r.sb.WriteString("// note" + r.nl)
		case 3: // comment at some indentation
			r.sb.WriteString(strings.Repeat(r.l.Indent, r.rng.intn(4)) + "// deeper note <<if>> -> x" + r.nl)
		}
	}
}

func (r *renderer) emit(depth int, text string, allowTrail bool) {
	r.deco(depth)
	if r.l.MixTabs && r.rng.chance(50) {
		// the same column written with tabs: never tabs and spaces on one line
		r.sb.WriteString(strings.Repeat("\t", depth))
	} else {
		r.sb.WriteString(strings.Repeat(r.l.Indent, depth))
	}
	r.sb.WriteString(text)
	if allowTrail && r.l.Deco != 0 && r.rng.chance(r.l.TrailPct) {
		r.sb.WriteString(" // trailing")
	}
	r.sb.WriteString(r.nl)
}

func setOpText(op string, spell int) string {
	if op == "=" && spell == 1 {
		return "to"
	}
	return op
}

func (r *renderer) stmts(body []*Stmt, depth int) {
	for _, s := range body {
		r.stmt(s, depth)
	}
}

func (r *renderer) stmt(s *Stmt, depth int) {
	o, c := r.cmdOpen(), r.cmdClose()
	switch s.K {
	case sLine:
		r.emit(depth, r.lineText(s.Line)+r.lineTail(s.Line), true)
	case sOptions:
		for _, op := range s.Options {
			r.emit(depth, "-> "+r.lineText(op.Line)+r.lineTail(op.Line), true)
			r.stmts(op.Body, depth+1)
		}
	case sIf:
		bd := depth
		if r.l.IndentIf {
			bd = depth + 1
		}
		for i, cl := range s.Clauses {
			switch {
			case i == 0:
				r.emit(depth, o+"if "+renderExpr(cl.Cond)+c, true)
			case cl.Cond != nil:
				r.emit(depth, o+"elseif "+renderExpr(cl.Cond)+c, true)
			default:
				r.emit(depth, o+"else"+c, true)
			}
			r.stmts(cl.Body, bd)
		}
		r.emit(depth, o+"endif"+c, true)
	case sSet:
		r.emit(depth, o+"set $"+s.Var+" "+setOpText(s.Op, s.Spell)+" "+renderExpr(s.E)+c, true)
	case sDeclare:
		as := ""
		if s.AsType != "" {
			as = " as " + s.AsType
		}
		r.emit(depth, o+"declare $"+s.Var+" "+setOpText("=", s.Spell)+" "+renderExpr(s.E)+as+c, true)
	case sJump:
		r.emit(depth, o+"jump "+s.Target+c, true)
	case sJumpE:
		r.emit(depth, o+"jump {"+renderExpr(s.E)+"}"+c, true)
	case sStop:
		r.emit(depth, o+[]string{"stop", "stop now", "stop {1 + 1}", "stop \"why\" 2"}[s.Spell%4]+c, true)
	case sCall:
		r.emit(depth, o+"call "+renderExpr(s.E)+c, true)
	case sCommand:
		t := s.Cmd
		for _, a := range s.Args {
			if a.E != nil {
				t += " {" + renderExpr(a.E) + "}"
			} else {
				t += " " + a.Word
			}
		}
		r.emit(depth, o+t+c, true)
	case sWait:
		if s.E.K == eNum {
			r.emit(depth, o+"wait "+fmtNumLit(s.E.N)+c, true)
		} else {
			r.emit(depth, o+"wait {"+renderExpr(s.E)+"}"+c, true)
		}
	}
}

func (r *renderer) node(n *Node) {
	r.deco(0)
	hdrs := make([]string, 0, 3)
	// with HdrSep set, every header line draws its own spacing after the colon
	sepOf := func() string {
		if r.l.HdrSep == 0 {
			return ": "
		}
		return []string{": ", ":", ":    ", ":  "}[r.rng.intn(4)]
	}
	for _, e := range n.Extra {
		hdrs = append(hdrs, e[0]+sepOf()+e[1])
	}
	if n.Tracking != "" {
		hdrs = append(hdrs, "tracking"+sepOf()+n.Tracking)
	}
	sep := sepOf()
	pos := n.TitlePos
	if pos > len(hdrs) {
		pos = len(hdrs)
	}
	if n.Title != "" || len(hdrs) == 0 {
		// (a node may legally have no title header as long as it has some header)
		hdrs = append(hdrs[:pos], append([]string{"title" + sep + n.Title}, hdrs[pos:]...)...)
	}
	for _, h := range hdrs {
		r.sb.WriteString(h + r.nl)
	}
	r.sb.WriteString("---" + r.nl)
	r.stmts(n.Body, 0)
	r.deco(0)
	r.sb.WriteString("===")
}

// renderNodes renders the given nodes as one file.
func renderNodes(nodes []*Node, l Layout, salt uint64) string {
	r := &renderer{l: l, nl: "\n"}
	if l.CRLF {
		r.nl = "\r\n"
	}
	r.rng = splitmix{s: l.Deco ^ (salt * 0x9e3779b97f4a7c15) ^ 0x5bd1e995}
	for i, n := range nodes {
		r.node(n)
		if i < len(nodes)-1 || l.FinalNL {
			r.sb.WriteString(r.nl)
		}
	}
	return r.sb.String()
}
