package zz_verif_sim

// C03 — variables and the storer seam: the host-supplied storer is compared
// with the model store after every op, under interleaved host writes and
// failing statements.

import (
	"fmt"

	"github.com/remieven/ysgo/variable"
)

func newInMemoryStorer() *variable.InMemoryStorer { return variable.NewInMemoryStorer() }

func hashHex(v any) string { return fmt.Sprintf("%016x", hashJSON(v)) }

func c03World(tp *Tape, env *Env) (*Plan, *Violation) {
	if tp.Chance(15, "storerhistory") {
		return c03StorerWorld(tp, env)
	}
	cfg := &GenCfg{
		MaxNodes: 3, MaxStmts: 6, MaxDepth: 2, MaxTotal: 30,
		WLine: 5, WOptions: 2, WIf: 3, WSet: 14, WDeclare: 4, WJump: 1, WStop: 0, WCall: 0,
		NVars: [3]int{tp.Int(1, 3, "nnum"), tp.Int(0, 2, "nbool"), tp.Int(1, 2, "nstr")}, Probes: true, ExprDepth: 2,
		InlinePct: 20, CondPct: 20, VarLines: true, IllTypedSets: tp.Int(0, 40, "illtyped"), NonASCII: tp.Bool("nonascii"),
	}
	if tp.Chance(40, "callsandcommands") {
		// host functions that write variables in the middle of a run of statements, and commands that stay
		// pending while the host writes: the value in the storer is the value the next assignment starts from
		cfg.WCall, cfg.HostFnWrites = 3, true
		if cfg.Handlers = drawHandlers(tp, 1); len(cfg.Handlers) > 0 {
			cfg.WCommand = 3
		}
	}
	g := &gen{tp: tp, cfg: cfg}
	var prog *Program
	if tp.Chance(20, "hubworld") {
		cfg.WJump, cfg.WJumpE, cfg.WStop = 0, 0, 0
		prog = g.hubProgram()
	} else {
		prog = g.program()
	}
	layout := genLayout(tp)
	w := World{Readers: distribute(tp, prog, layout, 2)}
	w.Host = HostSpec{Storer: []string{"rec", "mem", "cells"}[tp.Int(0, 2, "storer")], Probes: true, Seed: "s1", Handlers: cfg.Handlers}
	if len(cfg.Handlers) > 0 {
		w.Host.Scheds = drawScheds(tp, true)
	}
	if tp.Chance(30, "prefill") {
		w.Host.Prefill = map[string]Val{"pre": numV(3)}
		if tp.Chance(50, "leftovers") {
			// a storer that already served another dialogue: some of this script's own names are there, with a value of
			// the type the script expects or of another one (a declaration of the other type must then fail)
			for k := 0; k < 3; k++ {
				for _, v := range g.vars[k] {
					if tp.Chance(40, "leftover") {
						w.Host.Prefill[v] = []Val{numV(float64(tp.Int(0, 9, "leftn"))), boolV(true), strV("left over")}[tp.Int(0, 2, "leftkind")]
						env.St.fault("storer_with_values_left_over_from_an_earlier_dialogue")
					}
				}
			}
		}
	}
	m := newModel(prog, cfg.Handlers, w.Host.Scheds)
	for k, v := range w.Host.Prefill {
		m.store[k] = v
	}
	dc := &DriveCfg{MaxOps: 30, WritePct: tp.Int(0, 35, "writepct"), OtherPct: 15, ClearPct: 5, Vars: g.vars, ContinueAfterFault: true}
	ops, choices := driveTape(tp, m, dc, env.St)
	if m.discard != "" {
		env.St.inc("discarded", 1)
		return nil, nil
	}
	plan := &Plan{Harness: 1, Property: "C03", Program: prog, Layout: &layout, World: w, Ops: ops, Extra: map[string]any{"choices": choices}}
	sh := shapeOf(prog)
	nWrites, failing := 0, m.faulted
	for _, o := range ops {
		if o.K == "write" || o.K == "clear" {
			nWrites++
		}
		if o.Exp != nil && o.Exp.Kind == rError {
			failing = true
		}
	}
	env.St.inc("cases", 1)
	env.St.inc("ops", int64(len(ops)))
	if failing {
		env.St.probe("world_with_failing_statement")
	}
	if nWrites > 0 {
		env.St.probe("world_with_host_write")
	}
	if sh.nSets >= 3 && (nWrites > 0 || failing) {
		env.St.distinct("nontrivial", hashStr(fmt.Sprint(hashJSON(prog)), fmt.Sprint(hashJSON(ops))))
	}
	env.St.sample(map[string]any{"script": readerTexts(&w), "ops": summarizeOps(ops), "storer": w.Host.Storer})
	journal(plan)
	return plan, c03Exec(plan, env.St)
}

func c03Exec(plan *Plan, st *Stats) *Violation {
	var prev map[string]string
	cut := false
	hk := &execHooks{bubble: needsBubble(&plan.World, plan.Ops, plan.Program), callsClause: "C03.calls"}
	hk.afterOp = func(i int, op *Op, got *Resp, h *Host, tr *Trace) *Violation {
		store := tr.Stores[len(tr.Stores)-1]
		defer func() { prev = store }()
		// one name, one type: GetValue, GetValues and Contains agree for every name
		if h.st != nil {
			vals := h.st.GetValues()
			for name, v := range vals {
				vv := v
				c, ok := fromYarn(&vv)
				gv, found := h.st.GetValue(name)
				g, ok2 := fromYarn(gv)
				if !ok || !found || !ok2 || c.canon() != g.canon() || !h.st.Contains(name) {
					return &Violation{Clause: "C03.two-types", OpIndex: i, Observed: fmt.Sprintf("name %q: GetValues says %v, GetValue says %v (found=%v), Contains=%v", name, c.canon(), g.canon(), found, h.st.Contains(name))}
				}
			}
		}
		if cut {
			return nil
		}
		if got != nil && got.Kind == rPanic {
			cut = true
			return nil // C06's business
		}
		if op.K == "write" || op.K == "clear" {
			if op.ExpStore != nil && !sameStrMap(op.ExpStore, store) {
				return &Violation{Clause: "C03.store", OpIndex: i, Expected: fmtStrMap(op.ExpStore), Observed: fmtStrMap(store), Note: "storer does not hold what the host wrote"}
			}
			return nil
		}
		if got == nil || op.Exp == nil {
			return nil
		}
		if op.Exp.Kind == rError {
			// a failing statement: an error is required and the store is what it was before that statement
			if got.Kind != rError {
				if op.ExpStore != nil && !sameStrMap(op.ExpStore, store) {
					return &Violation{Clause: "C03.missing-error", OpIndex: i, Expected: op.Exp, Observed: got, Note: "store " + fmtStrMap(store) + " instead of " + fmtStrMap(op.ExpStore)}
				}
				return &Violation{Clause: "C03.missing-error", OpIndex: i, Expected: op.Exp, Observed: got}
			}
			if op.ExpStore != nil && !sameStrMap(op.ExpStore, store) {
				return &Violation{Clause: "C03.failed-write", OpIndex: i, Expected: fmtStrMap(op.ExpStore), Observed: fmtStrMap(store), Note: "a failing statement changed the store (previous store " + fmtStrMap(prev) + ")"}
			}
			return nil
		}
		if op.Exp.Kind == rAny {
			cut = true
			return nil
		}
		if op.ExpStore != nil && !sameStrMap(op.ExpStore, store) {
			return &Violation{Clause: "C03.store", OpIndex: i, Expected: fmtStrMap(op.ExpStore), Observed: fmtStrMap(store), Note: "response " + got.Kind + " " + got.Text + " " + got.Err}
		}
		switch d := respDiff(*op.Exp, *got); d {
		case "":
		case "text", "options", "disabled":
			return &Violation{Clause: "C03.stale-read", OpIndex: i, Expected: op.Exp, Observed: got, Note: "a value read by the script is not the value in the storer"}
		default:
			if got.Kind == rError {
				return &Violation{Clause: "C03.store", OpIndex: i, Expected: op.Exp, Observed: got, Note: "a valid statement was refused"}
			}
			cut = true // flow divergence: C01's business
			if st != nil {
				st.inc("assumption_breaks.C01", 1)
			}
		}
		return nil
	}
	_, v, _ := runWorld(&plan.World, plan.Ops, hk, st)
	if v != nil && (v.Clause == "load.panic" || v.Clause == "load.error" || v.Clause == "deadlock") {
		if st != nil {
			st.inc("assumption_breaks.C05", 1)
		}
		return nil
	}
	return v
}

// ---- histories on the in-memory storer itself (the storage seam a host can hold and write to) ----

type storerOp struct {
	K    string `json:"k"` // setn setb sets clear
	Name string `json:"name,omitempty"`
	N    int    `json:"n,omitempty"`
}

func c03StorerWorld(tp *Tape, env *Env) (*Plan, *Violation) {
	names := []string{"x", "y", "armed"}
	n := tp.Int(2, 30, "nstorerops")
	var ops []storerOp
	for i := 0; i < n; i++ {
		k := []string{"setn", "setb", "sets", "clear"}[tp.Pick([]int{6, 6, 6, 1}, "storerop")]
		ops = append(ops, storerOp{K: k, Name: names[tp.Int(0, len(names)-1, "storername")], N: tp.Int(0, 3, "storerval")})
	}
	plan := &Plan{Harness: 1, Property: "C03", Extra: map[string]any{"storer_ops": ops}}
	journal(plan)
	return plan, c03StorerExec(ops, env.St)
}

func c03StorerExec(ops []storerOp, st *Stats) *Violation {
	s := newInMemoryStorer()
	model := map[string]Val{}
	typeSwitches := 0
	for i, o := range ops {
		var v Val
		switch o.K {
		case "setn":
			v = numV(float64(o.N))
			s.SetNumberValue(o.Name, v.N)
		case "setb":
			v = boolV(o.N%2 == 1)
			s.SetBooleanValue(o.Name, v.B)
		case "sets":
			v = strV([]string{"", "a", "bc", "d e"}[o.N%4])
			s.SetStringValue(o.Name, v.S)
		case "clear":
			s.Clear()
			model = map[string]Val{}
		}
		if o.K != "clear" {
			if prev, ok := model[o.Name]; ok && prev.K != v.K {
				typeSwitches++
			}
			model[o.Name] = v
		}
		vals := s.GetValues()
		if len(vals) != len(model) {
			return &Violation{Clause: "C03.two-types", OpIndex: i, Expected: fmtStrMap(canonStore(model)), Observed: len(vals), Note: "GetValues reports another number of variables than the host stored"}
		}
		for _, name := range []string{"x", "y", "armed", "never"} {
			want, has := model[name]
			gv, found := s.GetValue(name)
			got, ok := fromYarn(gv)
			all, inAll := vals[name]
			allV, okAll := fromYarn(&all)
			switch {
			case has != found || has != inAll || has != s.Contains(name):
				return &Violation{Clause: "C03.two-types", OpIndex: i, Expected: has, Observed: []bool{found, inAll, s.Contains(name)}, Note: "GetValue / GetValues / Contains disagree about the presence of " + name}
			case has && (!ok || !okAll || got.canon() != want.canon() || allV.canon() != want.canon()):
				return &Violation{Clause: "C03.store", OpIndex: i, Expected: want.canon(), Observed: []string{got.canon(), allV.canon()}, Note: "the value the host wrote under " + name + " is not the value read back (GetValue, GetValues)"}
			}
		}
	}
	if st != nil {
		st.inc("cases", 1)
		st.inc("storer_history_ops", int64(len(ops)))
		st.probe("storer_history")
		if typeSwitches >= 2 {
			st.distinct("nontrivial", hashStr("storer", hashHex(ops)))
			st.probe("storer_history_with_two_type_switches_on_one_name")
		}
	}
	return nil
}
