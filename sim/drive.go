package zz_verif_sim

import "strings"

// Building host schedules by co-simulating the host with the reference model:
// the host only ever acts on its own view of the runner (READY / CHOOSING /
// PENDING / ENDED), and every op records what the model expects from it.

var junkArgs = []int{0, 1, -1, 7, 1 << 40, -5, 2, 3}

func recordNext(m *Model, arg int) Op {
	choosing := m.choosing != nil && (m.pending == nil || m.pending.Done)
	wasFaulted := m.faulted
	nc := len(m.calls)
	r := m.Next(arg)
	op := Op{K: "next", Arg: arg, Choosing: choosing}
	if !wasFaulted {
		op.Exp = &r
		op.ExpStore = canonStore(m.store)
		op.ExpCalls = append([]string{}, m.calls[nc:]...)
		op.CallsKnown = true
	}
	if gStats != nil {
		// abstract state of the protocol: host view x current node x continuation depth x pending kind x response kind
		pend := ""
		if m.pending != nil {
			pend = "cmd"
			if m.pending.IsWait {
				pend = "wait"
			}
		}
		gStats.distinct("abstract_states", hashStr(m.HostState(), m.cur, string(rune('0'+len(m.stack))), pend, r.Kind))
	}
	if r.Kind == rWaiting && m.asyncImmediate {
		op.MayComplete = true
	}
	m.asyncImmediate = false
	return op
}

// buildPathOps builds the op list of one choice path without using the tape:
// choices are forced, junk arguments derive from salt. When the path needs a
// choice that is not forced it stops and returns the number of options there.
func buildPathOps(m *Model, choices []int, salt uint64, maxOps int) (ops []Op, branch int) {
	ci := 0
	polls := 0
	for len(ops) < maxOps {
		st := m.HostState()
		switch st {
		case "PENDING":
			inv := m.pending
			if inv.Sched.Polls > 100 && polls == 0 {
				// a host that polls a slow command a thousand times: one burst, beyond the op budget
				for polls < inv.Sched.Polls {
					polls++
					ops = append(ops, recordNext(m, 0))
				}
				continue
			}
			if polls < inv.Sched.Polls {
				polls++
				ops = append(ops, recordNext(m, junkArgs[int((salt+uint64(len(ops)))%uint64(len(junkArgs)))]))
				continue
			}
			polls = 0
			m.Release(inv.Sched.Err)
			ops = append(ops, Op{K: "release", Inv: inv.Index, Err: inv.Sched.Err})
			continue
		case "CHOOSING":
			if ci >= len(choices) {
				return ops, len(m.choosing.Options)
			}
			ops = append(ops, recordNext(m, choices[ci]))
			ci++
		default:
			ops = append(ops, recordNext(m, junkArgs[int((salt+uint64(len(ops)))%uint64(len(junkArgs)))]))
		}
		last := ops[len(ops)-1]
		if last.Exp == nil || last.Exp.Kind == rEnd || m.faulted || m.discard != "" {
			break
		}
	}
	return ops, 0
}

// distribute renders the program into 1..3 readers split at node boundaries and
// draws how each reader delivers its bytes.
func distribute(tp *Tape, p *Program, l Layout, maxReaders int) []ReaderSpec {
	n := len(p.Nodes)
	nr := 1
	if n > 1 && maxReaders > 1 {
		hi := maxReaders
		if hi > n {
			hi = n
		}
		nr = tp.Int(1, hi, "nreaders")
	}
	// cut points
	cuts := []int{0}
	for r := 1; r < nr; r++ {
		lo := cuts[len(cuts)-1] + 1
		hi := n - (nr - r)
		cuts = append(cuts, tp.Int(lo, hi, "cut"))
	}
	cuts = append(cuts, n)
	var out []ReaderSpec
	for r := 0; r < nr; r++ {
		text := renderNodes(p.Nodes[cuts[r]:cuts[r+1]], l, uint64(r))
		if tp.Chance(30, "readeredges") {
			// what a file may legally have before its first and after its last node; kept only if the
			// independent syntax verdict agrees that the file is still valid on its own
			nl := "\n"
			if l.CRLF {
				nl = "\r\n"
			}
			pre := []string{"", "#filetag" + nl, "// leading comment" + nl, nl + nl, "#a #b" + nl + nl}[tp.Int(0, 4, "readerprefix")]
			suf := []string{"", "// trailing comment", "// trailing comment" + nl, "   ", "\t", nl + nl + nl, nl + "  " + nl}[tp.Int(0, 6, "readersuffix")]
			t2 := text
			if suf != "" && !strings.HasSuffix(t2, "\n") {
				t2 += nl
			}
			t2 = pre + t2 + suf
			if verdict([]byte(t2)).Valid {
				text = t2
				if gStats != nil {
					gStats.probe("reader_with_decorated_edges")
				}
			}
		}
		rs := ReaderSpec{Text: text}
		drawDelivery(tp, &rs)
		if tp.Chance(6, "seekable") {
			// a reader that can seek, handed over at the position where the script starts: what lies before that
			// position (a node the host skipped, a header of the host's own file format) is not part of the script
			rs.Before = []string{"title: Skipped\n---\nSK a node the host had already skipped\n===\n", "YARNPACK\x01\x02 <<<< header of the host's own container format >>\n\t \tnot yarn\n", "title: Skipped\ntracking: never\n---\n<<jump Nowhere>>\n===\n\n"}[tp.Int(0, 2, "beforekind")]
		}
		out = append(out, rs)
	}
	return out
}

func drawDelivery(tp *Tape, rs *ReaderSpec) {
	switch tp.Int(0, 5, "chunking") {
	case 0: // whole buffer
	case 1:
		rs.Chunks = []int{1}
	case 2:
		rs.Chunks = []int{3, 1, 0, 64}
	case 3:
		rs.Chunks = []int{tp.Int(1, 97, "chunk")}
	case 4:
		rs.Chunks = []int{0, 0, 5, 0, 1, 512}
	case 5:
		rs.Chunks = []int{7, 13}
	}
	rs.EOF = tp.Int(0, 1, "eofmode")
}

func drawHandlers(tp *Tape, max int) []HandlerSpec {
	n := tp.Int(0, max, "nhandlers")
	names := []string{"c0", "shake", "iffy", "c3", "settle"}
	kinds := []string{"int", "float64", "string", "bool", "int8", "float32", "int64", "MyInt", "MyString", "MyBool", "MyFloat"}
	var hs []HandlerSpec
	for i := 0; i < n; i++ {
		h := HandlerSpec{Name: names[i], Shape: handlerShapes[tp.Int(0, len(handlerShapes)-1, "shape")]}
		np := tp.Int(0, 3, "nparams")
		for j := 0; j < np; j++ {
			h.Params = append(h.Params, kinds[tp.Int(0, len(kinds)-1, "paramkind")])
		}
		if tp.Chance(20, "variadic") {
			h.Vari = kinds[tp.Int(0, 3, "varikind")]
		}
		hs = append(hs, h)
	}
	return hs
}

func drawScheds(tp *Tape, allowErr bool) []Sched {
	n := tp.Int(1, 4, "nscheds")
	var out []Sched
	for i := 0; i < n; i++ {
		s := Sched{}
		switch tp.Int(0, 2, "schedkind") {
		case 0:
			s.Immediate = true
		case 1:
			s.Polls = 0
		case 2:
			s.Polls = tp.Int(1, 4, "polls")
			if tp.Int(0, 299, "manypolls") == 0 {
				s.Polls = tp.Int(1001, 1300, "nmanypolls")
			}
		}
		if allowErr {
			s.Err = tp.Chance(25, "schederr")
		}
		s.Close = tp.Chance(20, "schedclose")
		out = append(out, s)
	}
	return out
}

// progShape computes the measures used by the "non-trivial" rules.
type progShape struct {
	maxNest       int
	jumpNested    bool
	optsEndBody   bool
	nOptions, nIf int
	nJumps        int
	nCommands     int
	nStops        int
	nSets         int
	stmts         int
}

func shapeOf(p *Program) progShape {
	var sh progShape
	var walk func(body []*Stmt, depth int)
	walk = func(body []*Stmt, depth int) {
		for i, s := range body {
			sh.stmts++
			switch s.K {
			case sOptions:
				sh.nOptions++
				if depth+1 > sh.maxNest {
					sh.maxNest = depth + 1
				}
				if depth > 0 && i == len(body)-1 {
					sh.optsEndBody = true
				}
				for _, o := range s.Options {
					walk(o.Body, depth+1)
				}
			case sIf:
				sh.nIf++
				if depth+1 > sh.maxNest {
					sh.maxNest = depth + 1
				}
				for _, c := range s.Clauses {
					walk(c.Body, depth+1)
				}
			case sJump, sJumpE:
				sh.nJumps++
				if depth > 0 {
					sh.jumpNested = true
				}
			case sCommand, sWait:
				sh.nCommands++
			case sStop:
				sh.nStops++
			case sSet, sDeclare:
				sh.nSets++
			}
		}
	}
	for _, n := range p.Nodes {
		walk(n.Body, 0)
	}
	return sh
}

// ---------- tape-driven host schedules ----------

type DriveCfg struct {
	MaxOps   int
	WritePct int // chance of a host-side write before a step
	OtherPct int // of those writes: chance the value has another type than the variable (fault)
	ClearPct int // of those writes: chance the host clears the store instead (fault)
	BadStr   int // of those writes: chance of a string full of markup metacharacters (fault)
	Vars     [3][]string
	AfterEnd int // extra polls after the end
	// ContinueAfterFault: go on after a statement that failed with a definite error (the model skips it)
	ContinueAfterFault bool
	// Reregister: names of commands whose handler the host may register again between two steps
	Reregister []string
}

func epsFor(secs float64) int64 {
	// dyadic values with few fractional bits are exact in float64 and in nanoseconds
	if secs*8 == float64(int64(secs*8)) {
		return 1
	}
	return 1000
}

func hostWriteOp(tp *Tape, m *Model, cfg *DriveCfg, st *Stats) Op {
	if tp.Chance(cfg.ClearPct, "hostclear") {
		m.Clear()
		if st != nil {
			st.fault("host_clear")
		}
		return Op{K: "clear", ExpStore: canonStore(m.store)}
	}
	kinds := []byte{'n', 'b', 's'}
	var names []string
	var types []byte
	for k := 0; k < 3; k++ {
		for _, v := range cfg.Vars[k] {
			names = append(names, v)
			types = append(types, kinds[k])
		}
	}
	names = append(names, "h0")
	types = append(types, kinds[tp.Int(0, 2, "h0type")])
	i := tp.Int(0, len(names)-1, "hostvar")
	ty := types[i]
	if cur, ok := m.store[names[i]]; ok {
		ty = cur.K
	}
	fault := "host_write"
	if tp.Chance(cfg.OtherPct, "othertype") {
		ty = kinds[(indexOf(kinds, ty)+1+tp.Int(0, 1, "which"))%3]
		fault = "host_write_other_type"
	}
	var v Val
	switch ty {
	case 'n':
		v = numV([]float64{0, 1, 7, -2, 2.5, 42}[tp.Int(0, 5, "hostnum")])
	case 'b':
		v = boolV(tp.Bool("hostbool"))
	default:
		v = strV([]string{"host", "", "h w", "Zed"}[tp.Int(0, 3, "hoststr")])
		if tp.Chance(cfg.BadStr, "badstr") {
			v = strV([]string{"[b]x", "a]b", "\\", "[", "é\xff", "[a=1 /]", "[/]", "\\[x"}[tp.Int(0, 7, "badstrval")])
			fault = "host_string_markup"
		}
	}
	m.Write(names[i], v)
	if st != nil {
		st.fault(fault)
	}
	vv := v
	return Op{K: "write", Var: names[i], Val: &vv, ExpStore: canonStore(m.store)}
}

func indexOf(a []byte, b byte) int {
	for i := range a {
		if a[i] == b {
			return i
		}
	}
	return 0
}

// driveTape builds a host schedule from the tape, acting only on the host's view of the model.
func driveTape(tp *Tape, m *Model, cfg *DriveCfg, st *Stats) (ops []Op, choices []int) {
	polls := 0
	after := 0
	poll := func(note string) {
		op := recordNext(m, junkArgs[tp.Int(0, len(junkArgs)-1, "junk")])
		op.Note = note
		ops = append(ops, op)
	}
	advance := func(ns int64) {
		if ns <= 0 {
			return
		}
		m.Advance(ns)
		ops = append(ops, Op{K: "advance", Ns: ns})
	}
	for len(ops) < cfg.MaxOps {
		if m.faulted && cfg.ContinueAfterFault && m.ContinueAfterFault() {
			if st != nil {
				st.probe("continued_after_failing_statement")
			}
		}
		if m.faulted || m.discard != "" {
			break
		}
		if cfg.WritePct > 0 && tp.Chance(cfg.WritePct, "hostwrite") {
			ops = append(ops, hostWriteOp(tp, m, cfg, st))
		}
		if len(cfg.Reregister) > 0 && tp.Chance(6, "reregister") {
			// the host replaces a handler by a new closure of the same shape: executions from now on reach the new one
			ops = append(ops, Op{K: "reregister", Var: cfg.Reregister[tp.Int(0, len(cfg.Reregister)-1, "reregname")]})
		}
		switch m.HostState() {
		case "PENDING":
			inv := m.pending
			if inv.IsWait {
				remaining := inv.Deadline - m.now
				eps := epsFor(inv.WaitSecs)
				if remaining > 4*eps && tp.Chance(40, "earlypoll") {
					d := remaining / 4 * int64(tp.Int(1, 3, "frac"))
					advance(d)
					poll("poll")
					continue
				}
				if remaining > eps {
					advance(remaining - eps)
					poll("poll")
				}
				advance(2 * eps)
				if st != nil {
					st.fault("wait_boundary_poll")
				}
				continue
			}
			if inv.Sched.Polls > 100 && polls == 0 {
				// a host that polls a slow command a thousand times: one burst, beyond the op budget
				for polls < inv.Sched.Polls {
					polls++
					op := recordNext(m, 0)
					op.Note = "poll"
					ops = append(ops, op)
				}
				if st != nil {
					st.probe("command_polled_over_1000_times")
				}
				continue
			}
			if polls < inv.Sched.Polls {
				polls++
				if tp.Chance(10, "snapwhilepending") {
					ops = append(ops, Op{K: "snapshot"}) // the host may look at the runner while a command is pending
				}
				if tp.Chance(15, "advbetween") {
					advance(int64(tp.Int(1, 5000, "advms")) * 1e6)
				}
				poll("poll")
				if st != nil {
					st.fault("completion_delayed_poll")
				}
				continue
			}
			polls = 0
			m.Release(inv.Sched.Err)
			ops = append(ops, Op{K: "release", Inv: inv.Index, Err: inv.Sched.Err})
			if st != nil && inv.Sched.Err {
				st.fault("command_completes_with_error")
			}
			continue
		case "CHOOSING":
			c := tp.Int(0, len(m.choosing.Options)-1, "choice")
			choices = append(choices, c)
			ops = append(ops, recordNext(m, c))
		default:
			ops = append(ops, recordNext(m, junkArgs[tp.Int(0, len(junkArgs)-1, "junk")]))
		}
		last := ops[len(ops)-1]
		if last.Exp != nil && last.Exp.Kind == rEnd {
			if after >= cfg.AfterEnd {
				break
			}
			after++
		}
	}
	return ops, choices
}
