package zz_verif_sim

// C07 — snapshots and restore, as crash-point enumeration. Entirely real-vs-real:
// every step of an original run is a save point (snapshot + deep copy at that
// instant); receivers in every state (fresh, mid-node, choosing, pending, ended,
// another path, restored before) are restored from it and compared, op by op,
// with a reference runner that replays the original up to the node entry the
// snapshot belongs to.

import (
	"fmt"

	"github.com/remieven/ysgo"
	"github.com/remieven/ysgo/variable"
)

type c07Exp struct {
	K     int  `json:"k"`               // save point: the snapshot taken after K ops of the original (0 = at creation)
	C     int  `json:"c"`               // crash point: the receiver has executed the first C ops of the original
	Shift int  `json:"shift,omitempty"` // receiver's choices are shifted by this (a sibling on another path)
	Twice bool `json:"twice,omitempty"` // the receiver was restored from the same snapshot before and driven on
	Pair  bool `json:"pair,omitempty"`  // a second receiver restored from the same snapshot is driven first (isolation)
	Bogus bool `json:"bogus,omitempty"` // restore a snapshot naming an unknown node instead
	// Durable: the receiver is given a rebuilt copy of the snapshot (fresh maps, fresh values - what comes back
	// from a save file after a crash), not the value the original runner handed out
	Durable bool `json:"durable,omitempty"`
	X       []Op `json:"x"`
	X2      []Op `json:"x2,omitempty"`
}

func c07World(tp *Tape, env *Env) (*Plan, *Violation) {
	cfg := &GenCfg{
		MaxNodes: 4, MaxStmts: 4, MaxDepth: 2, MaxTotal: 22,
		WLine: 8, WOptions: 4, WIf: 3, WSet: 5, WDeclare: 1, WJump: 5, WJumpE: 2, WStop: 0, WCall: 1, WCommand: 3,
		NVars: [3]int{2, 1, 1}, NJVars: 1, Probes: true, Visited: true, ExprDepth: 1,
		InlinePct: 25, CondPct: 25, TrackingPct: 15, VarLines: true, Builtins: true, CountLines: tp.Bool("countlines"), NoStringSelfGrowth: true,
	}
	if tp.Chance(50, "nocmd") {
		cfg.WCommand = 0
	} else {
		cfg.Handlers = drawHandlers(tp, 2)
	}
	if tp.Chance(30, "noprelude") {
		cfg.NoDeclarePrelude = true // variables then come from the host's prefill
	}
	g := &gen{tp: tp, cfg: cfg}
	var prog *Program
	if !cfg.NoDeclarePrelude && tp.Chance(20, "hubworld") {
		cfg.WJump, cfg.WJumpE, cfg.WStop = 1, 0, 0
		prog = g.hubProgram()
	} else {
		prog = g.program()
	}
	g.ensureYieldingCycles(prog)
	if len(prog.Nodes) > 0 && prog.Nodes[0].Title != "" && tp.Chance(8, "duptitle") {
		// a later file opens with a node of the same title as the start node (loaders accept that): a name stands for
		// the first node that carries it, at the start, in a jump and in a restore alike
		dup := &Node{Title: prog.Nodes[0].Title, Body: []*Stmt{{K: sLine, Line: &LineS{Parts: []Part{{Text: "DUP the second node of that title"}}}}}}
		prog.Nodes = append(prog.Nodes, dup)
		env.St.probe("two_nodes_share_the_start_nodes_title")
	}
	if !cfg.NoDeclarePrelude && tp.Chance(6, "barestart") {
		// the dialogue starts in a node WITHOUT a title, before any variable exists and before any node was left:
		// a snapshot taken there is, field for field, the zero value - and a genuine snapshot all the same
		plain := func(t string) *Stmt { return &Stmt{K: sLine, Line: &LineS{Parts: []Part{{Text: t}}}} }
		bare := &Node{Title: "", Extra: [][2]string{{"tags", "bare"}}}
		bare.Body = []*Stmt{plain("B1 hello"), {K: sOptions, Options: []*Option{{Line: &LineS{Parts: []Part{{Text: "B2 stay"}}}, Body: []*Stmt{plain("B3 inside")}}, {Line: &LineS{Parts: []Part{{Text: "B4 go"}}}}}}, plain("B5 after"), {K: sJump, Target: prog.Nodes[0].Title}}
		prog.Nodes = append([]*Node{bare}, prog.Nodes...)
		env.St.probe("start_in_an_untitled_node_with_nothing_to_save")
	}
	if tp.Chance(3, "silentstretch") {
		// tens of thousands of statements without a line or a choice, then (if there are handlers) a command: whatever
		// a runner keeps count of while it runs silently is not part of a snapshot and must not outlive a restore
		n := tp.Int(9000, 20000, "spinrounds")
		first := prog.Nodes[0].Title
		if first == "" && len(prog.Nodes) > 1 {
			first = prog.Nodes[1].Title
		}
		spin := &Node{Title: "SpinLoop"}
		spin.Body = []*Stmt{{K: sSet, Var: "spin", Op: "+=", E: numLit(1)},
			{K: sIf, Clauses: []*Clause{{Cond: g.bin("<", &Expr{K: eVar, S: "spin"}, numLit(float64(n))), Body: []*Stmt{{K: sJump, Target: "SpinLoop"}}}}}}
		if len(cfg.Handlers) > 0 {
			spin.Body = append(spin.Body, g.command())
		}
		spin.Body = append(spin.Body, &Stmt{K: sJump, Target: first})
		start := &Node{Title: "Spin0", Body: []*Stmt{{K: sDeclare, Var: "spin", E: numLit(0)}, {K: sJump, Target: "SpinLoop"}}}
		prog.Nodes = append([]*Node{start, spin}, prog.Nodes...)
		env.St.probe("tens_of_thousands_of_silent_statements")
	}
	layout := Layout{Indent: "    ", FinalNL: true}
	w := World{Readers: []ReaderSpec{{Text: renderNodes(prog.Nodes, layout, 0)}}}
	w.Host = HostSpec{Storer: []string{"rec", "mem", "default", "cells"}[tp.Pick([]int{4, 4, 1, 2}, "storer")], Probes: true, Seed: "s1", Handlers: cfg.Handlers, Overrides: tp.Chance(10, "hostoverrides")}
	if len(cfg.Handlers) > 0 {
		w.Host.Scheds = []Sched{{Immediate: tp.Bool("immediate")}}
	}
	if cfg.NoDeclarePrelude && w.Host.Storer != "default" {
		w.Host.Prefill = map[string]Val{}
		for _, v := range g.vars[0] {
			w.Host.Prefill[v] = numV(float64(tp.Int(0, 5, "pren")))
		}
		for _, v := range g.vars[1] {
			w.Host.Prefill[v] = boolV(tp.Bool("preb"))
		}
		for _, v := range g.vars[2] {
			w.Host.Prefill[v] = strV("pre")
		}
		for _, v := range g.jvars {
			w.Host.Prefill[v] = strV(g.titles[0])
		}
	} else if cfg.NoDeclarePrelude {
		// runner-owned storer cannot be prefilled: keep the prelude semantics by declaring in the script
		cfg.NoDeclarePrelude = false
		prog.Nodes[0].Body = append(g.prelude(), prog.Nodes[0].Body...)
		w.Readers[0].Text = renderNodes(prog.Nodes, layout, 0)
	}
	withCmd := len(cfg.Handlers) > 0
	n := tp.Int(2, 12, "norig")
	ops := drawDynOps(tp, n, g.vars, 12, withCmd)
	if tp.Chance(15, "hostclears") {
		// a host that empties its storer on the way and writes names of its own before and after: the variables a
		// runner holds then differ from a snapshot's in both directions (names it lacks, names it has on top)
		at := tp.Int(0, len(ops), "clearat")
		v1, v2 := numV(float64(tp.Int(0, 9, "hostn1"))), numV(float64(tp.Int(0, 9, "hostn2")))
		ins := []Op{{K: "write", Var: "hostA", Val: &v1}, {K: "next", Arg: 0}, {K: "clear"}, {K: "write", Var: "hostB", Val: &v2}}
		ops = append(append(append([]Op{}, ops[:at]...), ins...), ops[at:]...)
		env.St.fault("host_clears_its_storer_on_the_way")
	}
	nexp := tp.Int(1, 8, "nexp")
	if env.Thorough {
		nexp = tp.Int(4, 16, "nexp")
	}
	var exps []c07Exp
	for i := 0; i < nexp; i++ {
		e := c07Exp{K: tp.Int(0, len(ops), "k")}
		switch tp.Int(0, 4, "ckind") {
		case 0:
			e.C = 0
		case 1:
			e.C = e.K
		case 2:
			e.C = e.K + 1
		case 3:
			e.C = len(ops)
		case 4:
			e.C = tp.Int(0, len(ops), "c")
		}
		if e.C > len(ops) {
			e.C = len(ops)
		}
		if tp.Chance(25, "sibling") {
			e.Shift = 1
		}
		e.Twice = tp.Chance(15, "twice")
		e.Pair = tp.Chance(25, "pair")
		e.Bogus = tp.Chance(10, "bogus")
		e.Durable = tp.Chance(35, "durable")
		e.X = drawDynOps(tp, tp.Int(2, 6, "nx"), g.vars, 12, withCmd)
		if e.Pair {
			e.X2 = drawDynOps(tp, tp.Int(2, 5, "nx2"), g.vars, 12, withCmd)
		}
		exps = append(exps, e)
	}
	plan := &Plan{Harness: 1, Property: "C07", Program: prog, Layout: &layout, World: w, Ops: ops, Extra: map[string]any{"experiments": exps, "mid_call_saves": tp.Chance(35, "midcallsaves")}}
	env.St.inc("worlds_run", 1)
	env.St.sample(map[string]any{"script": readerTexts(&w), "original": describeDynOps(ops), "experiments": len(exps), "first_experiment": exps[0]})
	journal(plan)
	return plan, c07Exec(plan, env.St)
}

// rebuiltSnapshot returns what a host gets back after writing a snapshot to a save file and reading it
// again: equal content, nothing shared with the original (new maps, new value cells; an empty map may
// come back as nil).
func rebuiltSnapshot(s *ysgo.Snapshot) *ysgo.Snapshot {
	c := &ysgo.Snapshot{CurrentNode: string(append([]byte{}, s.CurrentNode...))}
	if len(s.Variables) > 0 {
		c.Variables = map[string]variable.Value{}
		for k, v := range s.Variables {
			var nv variable.Value
			if v.Number != nil {
				x := *v.Number
				nv.Number = &x
			}
			if v.Boolean != nil {
				x := *v.Boolean
				nv.Boolean = &x
			}
			if v.String != nil {
				x := string(append([]byte{}, *v.String...))
				nv.String = &x
			}
			c.Variables[k] = nv
		}
	}
	if len(s.VisitedNodes) > 0 {
		c.VisitedNodes = map[string]int{}
		for k, v := range s.VisitedNodes {
			c.VisitedNodes[k] = v
		}
	}
	return c
}

func safeRestore(d *dynRunner, s *ysgo.Snapshot) (err error, panicked any) {
	defer func() {
		if p := recover(); p != nil {
			panicked = p
		}
	}()
	return d.h.dr.RestoreAt(s), nil
}

func hostState(d *dynRunner) string {
	if d.nNext == 0 {
		return "FRESH"
	}
	switch d.last.Kind {
	case rOptions:
		return "CHOOSING"
	case rWaiting:
		return "PENDING"
	case rEnd:
		return "ENDED"
	case rError:
		return "AFTER_ERROR"
	}
	return "READY"
}

func c07Exec(plan *Plan, st *Stats) *Violation {
	exps, _ := decodeExtra[[]c07Exp](plan, "experiments")
	w := &plan.World
	bubble := needsBubble(w, nil, plan.Program)
	var viol *Violation
	var hosts []*Host
	mk := func() *dynRunner {
		d, err := newDyn(w, bubble)
		if err != nil {
			return nil
		}
		hosts = append(hosts, d.h)
		return d
	}
	body := func() {
		defer func() {
			for _, h := range hosts {
				h.Close()
			}
			drain(bubble)
		}()
		orig := mk()
		if orig == nil {
			if st != nil {
				st.inc("assumption_breaks.C05", 1)
			}
			return
		}
		ops := plan.Ops
		snaps := []*ysgo.Snapshot{orig.h.dr.Snapshot()}
		deep := []snapCanon{canonSnap(snaps[0])}
		// save points inside a call: the host of the original run also takes a snapshot from inside its own
		// callbacks (a host function, a synchronously called handler - what a <<save>> command does), on the
		// goroutine that drives the plan. Such a snapshot is a value like any other (I1), and where it equals a
		// snapshot taken between two calls, restoring from it must do what restoring from that one does (I3).
		var midSnaps []*ysgo.Snapshot
		var midDeep []snapCanon
		midByCanon := map[string]*ysgo.Snapshot{}
		if midCall, _ := decodeExtra[bool](plan, "mid_call_saves"); midCall {
			root := curGID()
			orig.h.onCall = func(kind, name string) {
				if settling || curGID() != root || len(midSnaps) >= 24 {
					return
				}
				func() {
					defer func() { recover() }()
					sn := orig.h.dr.Snapshot()
					midSnaps = append(midSnaps, sn)
					midDeep = append(midDeep, canonSnap(sn))
					midByCanon[midDeep[len(midDeep)-1].String()] = sn
				}()
			}
		}
		checkI1 := func(at string) *Violation {
			for j := range snaps {
				if c := canonSnap(snaps[j]); !c.equal(deep[j]) {
					return &Violation{Clause: "C07.I1", OpIndex: j, Expected: deep[j].String(), Observed: c.String(), Note: "a snapshot changed after it was taken (" + at + ")"}
				}
			}
			for j := range midSnaps {
				if c := canonSnap(midSnaps[j]); !c.equal(midDeep[j]) {
					return &Violation{Clause: "C07.I1", OpIndex: j, Expected: midDeep[j].String(), Observed: c.String(), Note: "a snapshot taken from inside a host callback changed after it was taken (" + at + ")"}
				}
			}
			return nil
		}
		for i := range ops {
			r := orig.apply(&ops[i])
			if r != nil && r.Kind == rPanic {
				return // not this property's business (fault-free worlds): C06
			}
			snaps = append(snaps, orig.h.dr.Snapshot())
			deep = append(deep, canonSnap(snaps[len(snaps)-1]))
			if v := checkI1(fmt.Sprintf("after op %d of the original run", i)); v != nil {
				viol = v
				return
			}
		}
		if st != nil {
			st.inc("save_points", int64(len(snaps)))
		}
		entry := func(k int) int {
			j := k
			for j > 0 && deep[j-1].equal(deep[k]) {
				j--
			}
			return j
		}
		replay := func(d *dynRunner, n, shift int) bool {
			for i := 0; i < n; i++ {
				op := ops[i]
				if op.K == "next" {
					op.Arg += shift
				}
				if r := d.apply(&op); r != nil && r.Kind == rPanic {
					return false
				}
			}
			return true
		}
		compareStep := func(clause string, ei, xi int, T, R *dynRunner, op *Op, events bool) *Violation {
			et, er := T.h.nEvents(), R.h.nEvents()
			rt, rr := T.apply(op), R.apply(op)
			where := fmt.Sprintf("experiment %d, continuation op %d (%s)", ei, xi, op.K)
			if (rt == nil) != (rr == nil) {
				return &Violation{Clause: clause, OpIndex: ei, Note: where}
			}
			if rt != nil && !respEqual(*rt, *rr) {
				return &Violation{Clause: clause, OpIndex: ei, Expected: rr, Observed: rt, Note: where + ": the restored runner answers differently from the reference"}
			}
			if a, b := T.h.StoreCanon(), R.h.StoreCanon(); a != nil && !sameStrMap(a, b) {
				return &Violation{Clause: clause, OpIndex: ei, Expected: fmtStrMap(b), Observed: fmtStrMap(a), Note: where + ": variables differ"}
			}
			if events {
				a, b := normEvents(T.h.eventsFrom(et)), normEvents(R.h.eventsFrom(er))
				if !sameStrs(a, b) {
					return &Violation{Clause: clause, OpIndex: ei, Expected: b, Observed: a, Note: where + ": side effects differ"}
				}
			}
			if a, b := canonSnap(T.h.dr.Snapshot()), canonSnap(R.h.dr.Snapshot()); !a.equal(b) {
				return &Violation{Clause: clause, OpIndex: ei, Expected: b.String(), Observed: a.String(), Note: where + ": snapshots differ"}
			}
			return nil
		}
		// restoreAndAlign restores T from snapshot k, checks I2, builds the reference and aligns both at
		// "first element of the node delivered".
		restoreAndAlign := func(ei int, T *dynRunner, k int) (*dynRunner, *Violation) {
			snap := snaps[k]
			if ms, ok := midByCanon[deep[k].String()]; ok && ei%2 == 0 {
				// the same state, saved from inside a callback
				snap = ms
				if st != nil {
					st.probe("restored_from_a_snapshot_taken_inside_a_host_callback")
				}
			}
			if exps[ei].Durable {
				snap = rebuiltSnapshot(snap)
				if st != nil {
					st.probe("restored_from_a_rebuilt_copy_of_the_snapshot")
				}
			}
			err, pv := safeRestore(T, snap)
			if pv != nil {
				return nil, &Violation{Clause: "C07.I3", OpIndex: ei, Observed: fmt.Sprint(pv), Note: "RestoreAt panicked"}
			}
			if err != nil {
				return nil, &Violation{Clause: "C07.I3", OpIndex: ei, Observed: err.Error(), Note: "RestoreAt of a snapshot of the same script failed"}
			}
			T.last = Resp{}
			if c := canonSnap(T.h.dr.Snapshot()); !c.equal(deep[k]) {
				return nil, &Violation{Clause: "C07.I2", OpIndex: ei, Expected: deep[k].String(), Observed: c.String(), Note: "a snapshot taken right after RestoreAt differs from the restored one"}
			}
			if sc := T.h.StoreCanon(); sc != nil && !sameStrMap(sc, deep[k].Vars) {
				return nil, &Violation{Clause: "C07.I3", OpIndex: ei, Expected: fmtStrMap(deep[k].Vars), Observed: fmtStrMap(sc), Note: "after RestoreAt the storer does not hold the snapshot's variables"}
			}
			j := entry(k)
			R := mk()
			if R == nil {
				return nil, nil
			}
			if j == 0 {
				return R, nil
			}
			if ops[j-1].K != "next" {
				return nil, &Violation{Clause: "C07.I1", OpIndex: j - 1, Note: "the runner's snapshot changed during a host op that is not Next"}
			}
			if !replay(R, j, 0) {
				return nil, nil
			}
			first := T.apply(&Op{K: "next", Arg: 0})
			if !respEqual(*first, R.last) {
				return nil, &Violation{Clause: "C07.I3", OpIndex: ei, Expected: R.last, Observed: first, Note: fmt.Sprintf("experiment %d: first element after restoring the snapshot of save point %d (node entered during original op %d)", ei, k, j-1)}
			}
			if a, b := T.h.StoreCanon(), R.h.StoreCanon(); a != nil && !sameStrMap(a, b) {
				return nil, &Violation{Clause: "C07.I3", OpIndex: ei, Expected: fmtStrMap(b), Observed: fmtStrMap(a), Note: "variables after the first element of the restored node"}
			}
			return R, nil
		}
		for ei := range exps {
			e := &exps[ei]
			if e.K > len(ops) {
				e.K = len(ops)
			}
			if e.C > len(ops) {
				e.C = len(ops)
			}
			T := mk()
			if T == nil || !replay(T, e.C, e.Shift) {
				continue
			}
			if st != nil {
				st.inc("cases", 1)
				st.probe("receiver." + hostState(T))
				if e.Shift != 0 {
					st.probe("receiver.sibling_path")
				}
			}
			if e.Bogus {
				twin := mk()
				if twin == nil || !replay(twin, e.C, e.Shift) {
					continue
				}
				keptBefore := T.h.dr.Snapshot() // a save the host keeps across the refused load
				before, storeBefore := canonSnap(keptBefore), T.h.StoreCanon()
				bogus := &ysgo.Snapshot{CurrentNode: "no_such_node_", Variables: yarnValues(map[string]Val{"zz": numV(99)}), VisitedNodes: map[string]int{"zz": 7}}
				hollow := ei%2 == 1 && snaps[e.K] != nil
				if hollow {
					// a snapshot of a known node with a hollow value in it: a runner may accept or refuse it,
					// but a refusal must leave everything as it was
					bogus = &ysgo.Snapshot{CurrentNode: snaps[e.K].CurrentNode, Variables: map[string]variable.Value{"zz": *variable.NewNumber(99), "hollow": {}}, VisitedNodes: map[string]int{"zz": 7}}
				}
				if hollow && st != nil {
					st.probe("restore_of_a_hollow_snapshot_attempted")
				}
				err, pv := safeRestore(T, bogus)
				if hollow && (pv != nil || err == nil) {
					continue
				}
				if pv != nil || err == nil {
					viol = &Violation{Clause: "C07.I5", OpIndex: ei, Observed: fmt.Sprint(pv), Note: "restoring a snapshot that names an unknown node did not fail"}
					return
				}
				if hollow && st != nil {
					st.probe("restore_of_a_hollow_snapshot_refused")
				}
				if after := canonSnap(T.h.dr.Snapshot()); !after.equal(before) {
					viol = &Violation{Clause: "C07.I5", OpIndex: ei, Expected: before.String(), Observed: after.String(), Note: "a failed restore changed the runner"}
					return
				}
				if sa := T.h.StoreCanon(); sa != nil && !sameStrMap(sa, storeBefore) {
					viol = &Violation{Clause: "C07.I5", OpIndex: ei, Expected: fmtStrMap(storeBefore), Observed: fmtStrMap(sa), Note: "a failed restore changed the variables"}
					return
				}
				for xi := range e.X {
					if v := compareStep("C07.I5", ei, xi, T, twin, &e.X[xi], true); v != nil {
						v.Note += " — after a failed restore the runner must behave like one that did not attempt it"
						viol = v
						return
					}
				}
				if c := canonSnap(keptBefore); !c.equal(before) {
					viol = &Violation{Clause: "C07.I1", OpIndex: ei, Expected: before.String(), Observed: c.String(), Note: "a snapshot taken before a refused restore changed while the runner went on afterwards"}
					return
				}
				if st != nil {
					st.fault("restore_unknown_node")
				}
				continue
			}
			if e.Twice {
				if err, pv := safeRestore(T, snaps[e.K]); err == nil && pv == nil {
					T.last = Resp{}
					T.apply(&Op{K: "next", Arg: 0})
					T.apply(&Op{K: "next", Arg: 1})
				}
				if st != nil {
					st.probe("receiver.restored_before")
				}
			}
			var T2, R2 *dynRunner
			if e.Pair {
				T2 = mk()
				if T2 != nil {
					var v *Violation
					R2, v = restoreAndAlign(ei, T2, e.K)
					if v != nil {
						viol = v
						return
					}
				}
			}
			R, v := restoreAndAlign(ei, T, e.K)
			if v != nil {
				viol = v
				return
			}
			if R == nil {
				continue
			}
			if st != nil {
				st.fault("crash_restore")
				if len(deep[e.K].Counts) > 0 && len(deep[e.K].Vars) > 0 && e.C > 0 {
					st.distinct("nontrivial", hashStr(fmt.Sprint(hashJSON(plan.Program)), fmt.Sprint(hashJSON(plan.Ops)), fmt.Sprint(hashJSON(e))))
				}
			}
			if T2 != nil && R2 != nil {
				for xi := range e.X2 {
					if v := compareStep("C07.I4", ei, xi, T2, R2, &e.X2[xi], true); v != nil {
						viol = v
						return
					}
				}
				if st != nil {
					st.probe("two_receivers_of_one_snapshot")
				}
			}
			clause := "C07.I3"
			if T2 != nil {
				clause = "C07.I4" // a difference now may come from the sibling receiver's progress
			}
			for xi := range e.X {
				if v := compareStep(clause, ei, xi, T, R, &e.X[xi], true); v != nil {
					viol = v
					return
				}
			}
			// the original's own suffix after the entry op, as one more continuation
			if j := entry(e.K); !e.Pair && j <= len(ops) {
				for xi := j; xi < len(ops) && xi < j+6; xi++ {
					op := ops[xi]
					if v := compareStep("C07.I3", ei, xi, T, R, &op, true); v != nil {
						viol = v
						return
					}
				}
			}
			if ei%3 == 0 && !e.Pair {
				// second generation: a save of the loaded game (the restored runner's own snapshot, taken after it
				// was driven on) and the reference runner's snapshot at the same point are equal (compared above); each
				// is restored into a fresh runner of its own, and the two must go on alike
				sT, sR := T.h.dr.Snapshot(), R.h.dr.Snapshot()
				U, V := mk(), mk()
				if U != nil && V != nil {
					eu, pu := safeRestore(U, sT)
					ev, pv := safeRestore(V, sR)
					if (eu == nil) != (ev == nil) || (pu == nil) != (pv == nil) {
						viol = &Violation{Clause: "C07.I3", OpIndex: ei, Expected: fmt.Sprint(ev, pv), Observed: fmt.Sprint(eu, pu), Note: "second generation: restoring the restored runner's own snapshot and the reference runner's equal snapshot do not succeed alike"}
						return
					}
					if eu == nil && pu == nil {
						U.last, V.last = Resp{}, Resp{}
						for xi, arg := range []int{0, 1, 0, 2, 0} {
							op := Op{K: "next", Arg: arg}
							if v := compareStep("C07.I3", ei, xi, U, V, &op, true); v != nil {
								v.Note += " - second generation: a fresh runner restored from the RESTORED runner's own later snapshot against one restored from the reference runner's"
								viol = v
								return
							}
						}
						if st != nil {
							st.probe("second_generation_snapshot_restored")
						}
					}
				}
			}
			if v := checkI1(fmt.Sprintf("after experiment %d", ei)); v != nil {
				viol = v
				return
			}
		}
	}
	if bubble {
		if dl, msg := inBubble(body); dl && viol == nil {
			viol = &Violation{Clause: "C07.I3", OpIndex: -1, Observed: msg, Note: "a call blocked"}
		}
	} else {
		body()
	}
	return viol
}
