package zz_verif_sim

// Plans, traces, the executor, bubbles and statistics.

import (
	"encoding/json"
	"fmt"
	"hash/fnv"
	"os"
	"runtime"
	"sort"
	"strings"
	"testing"
	"testing/synctest"
	"time"
)

// Op is one host operation of a plan, with what the model expects (if anything).
type Op struct {
	K           string            `json:"op"` // next write clear advance release snapshot restore restore_bogus
	Arg         int               `json:"arg,omitempty"`
	Var         string            `json:"var,omitempty"`
	Val         *Val              `json:"val,omitempty"`
	Ns          int64             `json:"ns,omitempty"`
	Inv         int               `json:"inv,omitempty"`
	Err         bool              `json:"err,omitempty"`
	Slot        int               `json:"slot,omitempty"`
	Runner      int               `json:"runner,omitempty"`
	Exp         *Resp             `json:"expect,omitempty"`
	ExpStore    map[string]string `json:"expect_store,omitempty"`
	MayComplete bool              `json:"may_complete,omitempty"` // waiting expected only because the handler runs on its own goroutine
	Choosing    bool              `json:"choosing,omitempty"`     // the argument is a choice (the previous element was an option group)
	// ExpCalls: the host functions this call runs, in order, with their arguments (when CallsKnown):
	// every evaluation the script's semantics ask for happens once, nothing is evaluated twice or early
	ExpCalls   []string `json:"expect_calls,omitempty"`
	CallsKnown bool     `json:"calls_known,omitempty"`
	Note       string   `json:"note,omitempty"`
}

type Violation struct {
	Clause   string `json:"clause"`
	OpIndex  int    `json:"op_index"`
	Expected any    `json:"expected,omitempty"`
	Observed any    `json:"observed,omitempty"`
	Note     string `json:"note,omitempty"`
}

// Plan is a self-contained, replayable description of one world.
type Plan struct {
	Harness   int            `json:"harness"`
	Property  string         `json:"property"`
	Clause    string         `json:"clause,omitempty"`
	VerifSeed uint64         `json:"verif_seed"`
	Tier      string         `json:"tier,omitempty"`
	Shard     int            `json:"shard"`
	RapidSeed uint64         `json:"rapid_seed,omitempty"`
	Program   *Program       `json:"program,omitempty"`
	Layout    *Layout        `json:"layout,omitempty"`
	World     World          `json:"world"`
	Ops       []Op           `json:"ops,omitempty"`
	Extra     map[string]any `json:"extra,omitempty"`
	Violation *Violation     `json:"violation,omitempty"`
}

// ---------- statistics ----------

type Stats struct {
	Counters map[string]int64
	Sets     map[string]map[uint64]struct{}
	Samples  []any
	SimNs    int64
}

func newStats() *Stats {
	return &Stats{Counters: map[string]int64{}, Sets: map[string]map[uint64]struct{}{}}
}

func (s *Stats) inc(name string, d int64) { s.Counters[name] += d }

func (s *Stats) fault(kind string) { s.Counters["fault."+kind]++ }

func (s *Stats) probe(name string) { s.Counters["probe."+name]++ }

func (s *Stats) distinct(set string, h uint64) {
	m := s.Sets[set]
	if m == nil {
		m = map[uint64]struct{}{}
		s.Sets[set] = m
	}
	if len(m) < 250_000 { // cap per shard: the merged figure is then a lower bound
		m[h] = struct{}{}
	}
}

func (s *Stats) sample(v any) {
	if len(s.Samples) < 3 {
		s.Samples = append(s.Samples, v)
	}
}

func hashStr(parts ...string) uint64 {
	h := fnv.New64a()
	for _, p := range parts {
		h.Write([]byte(p))
		h.Write([]byte{0})
	}
	return h.Sum64()
}

func hashJSON(v any) uint64 {
	b, _ := json.Marshal(v)
	h := fnv.New64a()
	h.Write(b)
	return h.Sum64()
}

// ---------- environment of a shard ----------

type Env struct {
	Tier      string
	VerifSeed uint64
	Shard     int
	NShards   int
	St        *Stats
	Thorough  bool
}

var gT *testing.T // the outer test, needed by synctest.Test

// gStats is the shard's statistics, for measures taken deep inside the drivers (abstract states).
var gStats *Stats

// leakedWorlds counts worlds at whose end a goroutine of the code under test was still blocked.
var leakedWorlds int64

// inBubble runs fn inside a synctest bubble (fake clock, quiescence detection).
// It reports a deadlock (every goroutine of the bubble durably blocked with the
// root still running) instead of crashing.
func inBubble(fn func()) (deadlock bool, msg string) {
	defer func() {
		if p := recover(); p != nil {
			s := fmt.Sprint(p)
			if strings.Contains(s, "deadlock") && strings.Contains(s, "has exited") {
				// every gate of the harness is open and the clock has run on (drain), so what is still
				// blocked is a goroutine started by the code under test. No claimed property forbids a
				// leaked goroutine as such: the world is not judged on it, only counted.
				leakedWorlds++
				return
			}
			if strings.Contains(s, "deadlock") {
				deadlock, msg = true, s
				return
			}
			panic(p)
		}
	}()
	synctest.Test(gT, func(t *testing.T) { fn() })
	return false, ""
}

// drain lets every goroutine of the bubble finish before the bubble is left:
// handlers see the closed done channel, sleepers of <<wait>> see their deadline.
func drain(bubble bool) {
	if bubble {
		settle(true)
		sleepInBubble(100000 * time.Second)
	}
}

// settle lets every goroutine of the bubble run until it blocks.
func settle(bubble bool) {
	if bubble {
		settling = true
		synctest.Wait()
		settling = false
	}
}

// settling is true while the root goroutine of a bubble lets the others run: host callbacks
// arriving then come from handler goroutines, which are not preemption points of the plan.
var settling bool

// curGID returns the id of the calling goroutine (parsed from its stack header). The interleaving
// hooks use it to act only on the goroutine that drives the plan: a callback that arrives on a handler
// goroutine comes at a moment the Go scheduler chose, which is not a preemption point of the plan.
func curGID() uint64 {
	var buf [64]byte
	n := runtime.Stack(buf[:], false)
	// "goroutine 123 [running]:"
	var id uint64
	for _, c := range buf[len("goroutine "):n] {
		if c < '0' || c > '9' {
			break
		}
		id = id*10 + uint64(c-'0')
	}
	return id
}

// sleepInBubble advances the fake clock.
func sleepInBubble(d time.Duration) {
	settling = true
	time.Sleep(d)
	synctest.Wait()
	settling = false
}

// ---------- executing a plan against the real runner ----------

type Trace struct {
	Resps  []Resp
	Stores []map[string]string
	Events [][]string
	Extra  int // extra waiting responses tolerated at dispatch
}

type execHooks struct {
	// afterOp is called after each op with the (possibly nil for non-next ops) response.
	afterOp  func(i int, op *Op, got *Resp, h *Host, tr *Trace) *Violation
	beforeOp func(i int, op *Op, h *Host)
	// stopOn ends the run early
	stopAfter func(i int, op *Op, got *Resp) bool
	bubble    bool
	epochNs   int64
	// callsClause, when set, makes runOps compare the host-function calls of every answered call with
	// the model's (only where the answer itself is the expected one and is not an error)
	callsClause string
	callsOff    bool
}

// needsBubble says whether a world has goroutines or clocks to control.
func needsBubble(w *World, ops []Op, prog *Program) bool {
	if len(w.Host.Handlers) > 0 {
		return true
	}
	for _, o := range ops {
		if o.K == "advance" || o.K == "release" {
			return true
		}
	}
	if prog != nil {
		for _, n := range prog.Nodes {
			found := false
			walkStmts(n.Body, func(s *Stmt) {
				if s.K == sWait || s.K == sCommand {
					found = true
				}
			})
			if found {
				return true
			}
		}
	}
	return false
}

// runOps drives one host through ops. It must be called inside a bubble when bubble is set.
func runOps(h *Host, ops []Op, hk *execHooks, st *Stats) (*Trace, *Violation) {
	tr := &Trace{}
	for i := 0; i < len(ops); i++ {
		op := &ops[i]
		ev0 := h.nEvents()
		var got *Resp
		if hk.beforeOp != nil {
			hk.beforeOp(i, op, h)
		}
		switch op.K {
		case "next":
			r := h.Next(op.Arg)
			settle(hk.bubble)
			if h.releaseAuto() {
				settle(hk.bubble)
			}
			got = &r
			if op.MayComplete && r.Kind != rWaiting && i+1 < len(ops) && ops[i+1].K == "next" {
				// the handler reported before the dispatching call returned: legal;
				// the response then is the one planned for the following poll
				tr.Extra++
				tr.Resps = append(tr.Resps, Resp{Kind: rWaiting})
				tr.Stores = append(tr.Stores, nil)
				tr.Events = append(tr.Events, nil)
				i++
				merged := ops[i]
				merged.ExpCalls = append(append([]string{}, ops[i-1].ExpCalls...), ops[i].ExpCalls...)
				merged.CallsKnown = ops[i-1].CallsKnown && ops[i].CallsKnown
				op = &merged
			}
		case "write":
			if h.st != nil && op.Val != nil {
				hostWrite(h.st, op.Var, *op.Val)
			}
		case "clear":
			if h.st != nil {
				h.st.Clear()
			}
		case "advance":
			if hk.bubble {
				sleepInBubble(time.Duration(op.Ns))
				if st != nil {
					st.SimNs += op.Ns
				}
			}
		case "release":
			h.Release(op.Inv, op.Err)
			settle(hk.bubble)
		case "reregister":
			h.Reregister(op.Var)
		case "snapshot":
			func() {
				defer func() { recover() }()
				h.dr.Snapshot()
			}()
		}
		if v := finishOp(i, op, got, h, hk, tr, ev0); v != nil {
			return tr, v
		}
		if hk.stopAfter != nil && hk.stopAfter(i, op, got) {
			break
		}
	}
	return tr, nil
}

func finishOp(i int, op *Op, got *Resp, h *Host, hk *execHooks, tr *Trace, ev0 int) *Violation {
	if got != nil {
		tr.Resps = append(tr.Resps, *got)
	} else {
		tr.Resps = append(tr.Resps, Resp{Kind: "-"})
	}
	tr.Stores = append(tr.Stores, h.StoreCanon())
	tr.Events = append(tr.Events, h.eventsFrom(ev0))
	if hk.afterOp != nil {
		if v := hk.afterOp(i, op, got, h, tr); v != nil {
			return v
		}
	}
	if hk.callsClause != "" && !hk.callsOff && op.K == "next" && op.CallsKnown && got != nil && op.Exp != nil {
		switch {
		case (op.Exp.Kind == rError && op.Exp.Err != "command reported an error") || op.Exp.Kind == rAny || respDiff(*op.Exp, *got) != "":
			// a failing statement (how far its evaluation got is not claimed) or a divergence that is
			// somebody else's business: from here on the calls are not comparable any more
			if op.Exp.Kind == rAny || respDiff(*op.Exp, *got) != "" {
				hk.callsOff = true
			}
		default:
			var real []string
			for _, e := range tr.Events[len(tr.Events)-1] {
				if strings.HasPrefix(e, "fn ") {
					real = append(real, e[3:])
				}
			}
			if gStats != nil && len(op.ExpCalls) > 0 {
				gStats.inc("answered_calls_with_host_function_calls_compared", 1)
			}
			if !sameStrs(real, op.ExpCalls) {
				return &Violation{Clause: hk.callsClause, OpIndex: i, Expected: op.ExpCalls, Observed: real, Note: "host functions called during this call: every evaluation the statements ask for happens exactly once, in order"}
			}
		}
	}
	return nil
}

// runWorld creates the host and runs ops, in a bubble when needed.
func runWorld(w *World, ops []Op, hk *execHooks, st *Stats) (tr *Trace, viol *Violation, h *Host) {
	body := func() {
		var pv any
		h, pv = newHost(w)
		if pv != nil {
			viol = &Violation{Clause: "load.panic", OpIndex: -1, Observed: fmt.Sprint(pv)}
			return
		}
		if h.loadErr != nil {
			viol = &Violation{Clause: "load.error", OpIndex: -1, Observed: h.loadErr.Error()}
			return
		}
		tr, viol = runOps(h, ops, hk, st)
		h.Close()
		drain(hk.bubble)
	}
	if hk.bubble {
		if dl, msg := inBubble(body); dl {
			viol = &Violation{Clause: "deadlock", OpIndex: -1, Observed: msg}
		}
	} else {
		body()
	}
	return tr, viol, h
}

// ---------- writing replay files ----------

var replayDir = func() string {
	if d := os.Getenv("VERIF_REPLAY_DIR"); d != "" {
		return d
	}
	return "/verif/replays"
}()

func writeReplay(p *Plan) string {
	os.MkdirAll(replayDir, 0o755)
	name := fmt.Sprintf("%s/%s-seed%d-shard%d-%s.json", replayDir, p.Property, p.VerifSeed, p.Shard, sanitize(p.Clause))
	b, err := json.MarshalIndent(p, "", " ")
	if err != nil {
		b = []byte(fmt.Sprintf(`{"error": %q}`, err.Error()))
	}
	os.WriteFile(name, b, 0o644)
	return name
}

func sanitize(s string) string {
	return strings.Map(func(r rune) rune {
		if (r >= 'a' && r <= 'z') || (r >= 'A' && r <= 'Z') || (r >= '0' && r <= '9') || r == '-' || r == '_' {
			return r
		}
		return '_'
	}, s)
}

func sortedKeys[V any](m map[string]V) []string {
	keys := make([]string, 0, len(m))
	for k := range m {
		keys = append(keys, k)
	}
	sort.Strings(keys)
	return keys
}

func jsonMarshal(v any) ([]byte, error)   { return json.Marshal(v) }
func jsonUnmarshal(b []byte, v any) error { return json.Unmarshal(b, v) }

// journalFile: when set (the driver re-runs a shard that crashed), every plan is written there
// before it is executed, so that the plan that kills the process survives it.
var journalFile string

func journal(p *Plan) {
	if journalFile == "" || p == nil {
		return
	}
	b, err := json.Marshal(p)
	if err == nil {
		os.WriteFile(journalFile, b, 0o644)
	}
}
