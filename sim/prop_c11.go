package zz_verif_sim

// C11 — visit counts. Model-free on flow: every node starts with
// <<call enter("N")>>, so the real run's own probe log is the jump history; the
// expected counter of a node is the number of later entries that followed an
// entry of that node (restores and the start excepted), 0 for tracking: never.
// Every line renders visited_count / visited for every node and two non-node
// names; Snapshot().VisitedNodes is compared after every op.

import (
	"fmt"
	"strconv"
	"strings"

	"github.com/remieven/ysgo"
)

func c11World(tp *Tape, env *Env) (*Plan, *Violation) {
	cfg := &GenCfg{
		MaxNodes: 5, MaxStmts: 4, MaxDepth: 3, MaxTotal: 26,
		WLine: 8, WOptions: 4, WIf: 4, WSet: 2, WJump: 7, WJumpE: 4, WStop: 1,
		NVars: [3]int{1, 1, 0}, NJVars: 2, Probes: true, Visited: true, ExprDepth: 2,
		CondPct: 30, TrackingPct: tp.Int(0, 60, "trackpct"), EnterProbe: true, CountLines: true, NonASCII: tp.Bool("nonascii"),
	}
	if env.Thorough {
		cfg.MaxNodes, cfg.MaxTotal = 8, 40
	}
	g := &gen{tp: tp, cfg: cfg}
	var prog *Program
	if tp.Chance(20, "hubworld") {
		cfg.WJump, cfg.WJumpE, cfg.WStop = 1, 0, 0
		cfg.BigRoundsPct = 2
		prog = g.hubProgram()
	} else {
		prog = g.program()
	}
	if tp.Chance(25, "failedjumps") {
		// jumps that fail (unknown node): nothing is left, so no counter may move
		for _, n := range prog.Nodes {
			if tp.Chance(40, "failedjumphere") && len(n.Body) > 1 {
				at := tp.Int(1, len(n.Body), "failedjumpat")
				body := append([]*Stmt{}, n.Body[:at]...)
				body = append(body, &Stmt{K: sJump, Target: "Nowhere"})
				n.Body = append(body, n.Body[at:]...)
			}
		}
		env.St.probe("world_with_failing_jumps")
	}
	g.ensureYieldingCycles(prog)
	if tp.Chance(6, "paddedtitle") {
		// a title header whose value ends in a blank or a tab: the value is the rest of the line, so that is the node's
		// name - the name under which it is entered, counted and asked about
		n := prog.Nodes[tp.Int(0, len(prog.Nodes)-1, "paddednode")]
		if n.Title != "" {
			renameNode(prog, n.Title, n.Title+[]string{" ", "\t", "  "}[tp.Int(0, 2, "padding")])
			env.St.probe("node_title_ending_in_white_space")
		}
	}
	if len(prog.Nodes) > 0 && prog.Nodes[0].Title != "" && tp.Chance(8, "duptitle") {
		// a later file opens with a node of the same title as the start node (loaders accept that): a name stands for
		// the first node that carries it, at the start, in a jump and in a restore alike
		dup := &Node{Title: prog.Nodes[0].Title, Body: []*Stmt{{K: sLine, Line: &LineS{Parts: []Part{{Text: "DUP the second node of that title"}}}}}}
		prog.Nodes = append(prog.Nodes, dup)
		env.St.probe("two_nodes_share_the_start_nodes_title")
	}
	if tp.Chance(30, "passthrough") {
		// pass-through nodes: the node's FIRST statement is its jump onward (no entry probe in front of it: the
		// passage is logged by the destination expression itself), so chains A -> P -> B resolve inside one call
		var jumps []*Stmt
		for _, n := range prog.Nodes {
			walkStmts(n.Body, func(s *Stmt) {
				if s.K == sJump && s.Target != "Nowhere" {
					jumps = append(jumps, s)
				}
			})
		}
		np := tp.Int(1, 3, "npass")
		for k := 0; k < np && len(jumps) > 0; k++ {
			j := jumps[tp.Int(0, len(jumps)-1, "passjump")]
			title := fmt.Sprintf("Pass%d", k)
			pn := &Node{Title: title}
			if tp.Chance(20, "passnever") {
				pn.Tracking = "never"
			}
			pn.Body = []*Stmt{{K: sJumpE, E: &Expr{K: eCall, S: "via", A: []*Expr{{K: eStr, S: title}, {K: eStr, S: j.Target}}}}}
			j.Target = title
			prog.Nodes = append(prog.Nodes, pn)
		}
		env.St.probe("world_with_pass_through_nodes")
	}
	layout := genLayout(tp)
	w := World{Readers: distribute(tp, prog, layout, 2)}
	w.Host = HostSpec{Storer: []string{"rec", "mem", "default"}[tp.Int(0, 2, "storer")], Probes: true, Seed: "s1"}
	n := tp.Int(3, 24, "nops")
	if g.bigRounds {
		n = tp.Int(1200, 3000, "nopsbig") // long enough for a node to be left more than 127 / 255 times
		env.St.probe("world_with_a_node_left_over_127_times_planned")
	}
	var ops []Op
	slots := 0
	for i := 0; i < n; i++ {
		if g.bigRounds && tp.Chance(99, "plainstep") {
			ops = append(ops, Op{K: "next", Arg: 0})
			continue
		}
		if tp.Chance(8, "snap") {
			ops = append(ops, Op{K: "snapshot", Slot: slots})
			slots++
		}
		if tp.Chance(4, "refusedrestore") {
			ops = append(ops, Op{K: "restore_refused"}) // a restore the runner refuses (unknown node): nothing changes
		}
		if slots > 0 && tp.Chance(8, "restore") {
			ops = append(ops, Op{K: "restore", Slot: tp.Int(0, slots-1, "slot")})
		}
		ops = append(ops, Op{K: "next", Arg: tp.Int(-1, 4, "arg")})
	}
	plan := &Plan{Harness: 1, Property: "C11", Program: prog, Layout: &layout, World: w, Ops: ops}
	env.St.sample(map[string]any{"script": readerTexts(&w), "ops": describeDynOps(ops)})
	journal(plan)
	return plan, c11Exec(plan, env.St)
}

func c11Names(p *Program) []string {
	var names []string
	for _, n := range p.Nodes {
		names = append(names, n.Title)
	}
	return append(names, "nowhere", "L1")
}

func c11Exec(plan *Plan, st *Stats) *Violation {
	prog := plan.Program
	names := c11Names(prog)
	// the counter lines were written before the pass-through nodes were added: they show every other name
	var lineNames []string
	for _, n := range names {
		if !strings.HasPrefix(n, "Pass") {
			lineNames = append(lineNames, n)
		}
	}
	never := map[string]bool{}
	isNode := map[string]bool{}
	for _, n := range prog.Nodes {
		if isNode[n.Title] {
			continue // a title stands for the first node that carries it
		}
		isNode[n.Title] = true
		never[n.Title] = n.Tracking == "never"
	}
	d, err := newDyn(&plan.World, false)
	if err != nil {
		if st != nil {
			st.inc("assumption_breaks.C05", 1)
		}
		return nil
	}
	expected := map[string]int{}
	prev, haveEntry, sinceRestore := "", false, 0
	jumps := 0
	type saved struct {
		snap *ysgo.Snapshot
		deep snapCanon
	}
	slots := map[int]saved{}
	restored, restoredPending := false, false
	clauseFor := func(name string, gotCount int, gotVisited bool) string {
		switch {
		case !isNode[name]:
			return "C11.non-node"
		case never[name] && gotCount != 0:
			return "C11.untracked"
		case gotVisited != (gotCount > 0):
			return "C11.visited"
		case restored && sinceRestore == 0:
			return "C11.after-restore"
		}
		return "C11.count"
	}
	for i := range plan.Ops {
		op := &plan.Ops[i]
		ev0 := d.h.nEvents()
		switch op.K {
		case "restore_refused":
			if err, pv := safeRestore(d, &ysgo.Snapshot{CurrentNode: "No such node", VisitedNodes: map[string]int{"No such node": 3}}); err == nil || pv != nil {
				return nil // C07's business
			}
			if st != nil {
				st.probe("restore_refused_then_counting_goes_on")
			}
			continue
		case "snapshot":
			s := d.h.dr.Snapshot()
			slots[op.Slot] = saved{s, canonSnap(s)}
			continue
		case "restore":
			sv, ok := slots[op.Slot]
			if !ok {
				continue
			}
			if err, pv := safeRestore(d, sv.snap); err != nil || pv != nil {
				return nil // C07's business
			}
			d.last = Resp{}
			expected = map[string]int{}
			for k, v := range sv.deep.Counts {
				expected[k] = v
			}
			haveEntry = false
			restored, sinceRestore = true, 0
			restoredPending = true
			if st != nil {
				st.fault("crash_restore")
			}
			continue
		}
		r := d.apply(op)
		if r == nil {
			continue
		}
		if r.Kind == rPanic {
			if st != nil {
				st.inc("cut.panic", 1)
			}
			return nil // not this property's business
		}
		if r.Kind == rError && !strings.Contains(r.Err, "not found in dialogue") {
			if st != nil {
				st.inc("cut.unexpected_error", 1)
				st.sample(map[string]any{"unexpected_error": r.Err})
			}
			return nil // only the deliberate jumps to unknown nodes may fail in these worlds
		}
		for _, e := range d.h.eventsFrom(ev0) {
			var name string
			var uerr error
			switch {
			case strings.HasPrefix(e, `fn enter(s:"`):
				name, uerr = strconv.Unquote(e[len("fn enter(s:") : len(e)-1])
			case strings.HasPrefix(e, `fn via(s:"`):
				// a pass-through node announces itself in the destination expression of its only statement
				rest := e[len("fn via(s:"):]
				if q, err := strconv.QuotedPrefix(rest); err == nil {
					name, uerr = strconv.Unquote(q)
					if st != nil {
						st.probe("pass_through_node_traversed")
					}
				} else {
					uerr = err
				}
			default:
				continue
			}
			if uerr != nil {
				continue
			}
			if haveEntry {
				if !never[prev] {
					expected[prev]++
				}
				jumps++
				sinceRestore++
				if restoredPending && st != nil {
					st.probe("restore_then_jump")
					restoredPending = false
				}
			}
			prev, haveEntry = name, true
		}
		// the counters the runner reports
		sc := canonSnap(d.h.dr.Snapshot())
		for _, name := range names {
			if sc.Counts[name] != expected[name] {
				return &Violation{Clause: clauseFor(name, sc.Counts[name], sc.Counts[name] > 0), OpIndex: i, Expected: fmt.Sprintf("%s: %d", name, expected[name]), Observed: fmt.Sprintf("%s: %d", name, sc.Counts[name]), Note: "Snapshot().VisitedNodes after " + fmt.Sprint(jumps) + " jumps"}
			}
		}
		for k, v := range sc.Counts {
			if _, known := expected[k]; !known && v != 0 {
				return &Violation{Clause: "C11.non-node", OpIndex: i, Observed: fmt.Sprintf("%s: %d", k, v), Note: "a counter exists for a name that was never left through a jump"}
			}
		}
		// the counters the script sees
		texts := []string{}
		if r.Kind == rLine {
			texts = append(texts, r.Text)
		}
		for _, o := range r.Opts {
			texts = append(texts, o.Text)
		}
		for _, text := range texts {
			toks := strings.Fields(text)
			if len(toks) < len(lineNames) {
				continue
			}
			if k := len(toks) - len(lineNames) - 1; k >= 0 && strings.HasPrefix(toks[k], "x=") && len(lineNames) >= 3 {
				// visited_count(first) + visited_count(last) * 1000 evaluated as one expression: the first result
				// is still held while the second call runs
				a, b := lineNames[0], lineNames[len(lineNames)-3]
				want := expected[a] + expected[b]*1000
				if got, err := strconv.Atoi(toks[k][2:]); err != nil || got != want {
					return &Violation{Clause: "C11.count", OpIndex: i, Expected: fmt.Sprintf("visited_count(%q) + visited_count(%q) * 1000 = %d", a, b, want), Observed: toks[k][2:], Note: "two counters read inside one expression, in " + fmt.Sprintf("%q", text)}
				}
			}
			toks = toks[len(toks)-len(lineNames):]
			for k, name := range lineNames {
				parts := strings.Split(toks[k], ",")
				if len(parts) != 2 {
					return nil // not a counter line (text assumption broken): C01/C04's business
				}
				c, cerr := strconv.Atoi(parts[0])
				if cerr != nil || (parts[1] != "True" && parts[1] != "False") {
					return nil
				}
				v := parts[1] == "True"
				if c != expected[name] || v != (expected[name] > 0) {
					return &Violation{Clause: clauseFor(name, c, v), OpIndex: i, Expected: fmt.Sprintf("%s: visited_count=%d visited=%v", name, expected[name], expected[name] > 0), Observed: fmt.Sprintf("%s: visited_count=%d visited=%v in %q", name, c, v, text), Note: fmt.Sprint(jumps) + " jumps so far"}
				}
			}
			if st != nil {
				st.inc("counter_lines_checked", 1)
			}
		}
	}
	if st != nil {
		st.inc("cases", 1)
		st.inc("jumps", int64(jumps))
		if jumps >= 2 {
			st.distinct("nontrivial", hashStr(fmt.Sprint(hashJSON(prog)), fmt.Sprint(hashJSON(plan.Ops))))
		}
		maxc := 0
		for _, v := range expected {
			if v > maxc {
				maxc = v
			}
		}
		if maxc >= 3 {
			st.probe("node_left_three_times")
		}
		if maxc > 127 {
			st.probe("node_left_over_127_times")
		}
		if maxc > 255 {
			st.probe("node_left_over_255_times")
		}
		for name := range never {
			if never[name] && name == prev && jumps > 0 {
				st.probe("untracked_node_visited")
			}
		}
	}
	return nil
}
