package zz_verif_sim

// The process probe: a fixed set of inputs whose results are computed twice - in the shard's own process,
// which has by then parsed and run thousands of generated scripts, and in a fresh child process that has
// done nothing yet. Whatever an earlier script left behind in package-level state of the library shows as a
// difference between the two (comparisons made inside one process cannot see it: both sides are equally
// affected).

import (
	"bytes"
	"fmt"
	"os"
	"os/exec"
	"strings"
	"time"

	"github.com/remieven/ysgo/markup"
)

func processProbeText() string {
	var sb strings.Builder
	var lines []string
	for v := 0; v <= 25; v++ {
		lines = append(lines,
			fmt.Sprintf(`P [plural value=%d one="a" two="b" few="c" many="d" other="e %%" /] t`, v),
			fmt.Sprintf(`O [ordinal value=%d one="%%st" two="%%nd" few="%%rd" many="%%m" other="%%th" /] t`, v))
	}
	lines = append(lines,
		`S [select value=a a="A" b="B" /] [select value=b a="A" b="B" /]`, `N [nomarkup][x] raw [/b][/nomarkup] [nomarkup]n[/] tail`,
		`Mae: [b]bold[/b] [wave a=1 s="q r" f=1.5 t=true]w[/wave] x`, `E \\[esc\\] [a/] after [c trimwhitespace=false /] kept [d trimwhitespace=true /] gone`,
		`U [em]é日本[/em] [a][b]nested[/b][/a] [x]open to the end`, `F [plural value=1 one="only"]open[/plural] [select value=zz a="A" /]`,
		` leading [a]x[/a]`, `[b]first[/b] then`, `plain`, ``)
	for _, l := range lines {
		var lp markup.LineParser
		fmt.Fprintf(&sb, "%q => %s\n", l, canonJSON(parseWith(&lp, l)))
	}
	// and every built-in, operator and statement kind through a runner
	sb.WriteString(kitchenSinkTrace("k1"))
	return sb.String()
}

func processProbe(env *Env, prop string) (*Plan, *Violation) {
	bin := os.Getenv("VERIF_BIN")
	if bin == "" {
		bin = os.Args[0]
	}
	warm := processProbeText()
	cmd := exec.Command(bin, "-test.run", "^TestSim$", "-test.timeout", "0", "-sim.mode", "probechild")
	var out bytes.Buffer
	cmd.Stdout = &out
	cmd.Stderr = &out
	done := make(chan error, 1)
	go func() { done <- cmd.Run() }()
	select {
	case <-done:
	case <-time.After(300 * time.Second):
		cmd.Process.Kill()
		<-done
		env.St.inc("process_probe_children_timed_out", 1)
		return nil, nil
	}
	o := out.String()
	i, j := strings.Index(o, "PROBE-BEGIN\n"), strings.Index(o, "PROBE-END\n")
	if i < 0 || j < i {
		env.St.inc("process_probe_children_without_answer", 1)
		return nil, nil
	}
	cold := o[i+len("PROBE-BEGIN\n") : j]
	env.St.inc("process_probes_compared_with_a_fresh_process", 1)
	env.St.fault("fresh_process_cross_check")
	if cold == warm {
		return nil, nil
	}
	a, b := strings.Split(cold, "\n"), strings.Split(warm, "\n")
	obs := fmt.Sprintf("the two answers have %d and %d lines", len(a), len(b))
	for k := 0; k < len(a) && k < len(b); k++ {
		if a[k] != b[k] {
			obs = fmt.Sprintf("fresh process: %s | this process, after %d worlds: %s", a[k], env.St.Counters["worlds"], b[k])
			break
		}
	}
	plan := &Plan{Harness: 1, Property: prop, Extra: map[string]any{"process_probe": true, "note": "needs the history of the shard's process: re-run the check with the same VERIF_SEED; the file alone replays as held"}}
	return plan, &Violation{Clause: prop + ".process-history", OpIndex: -1, Observed: obs, Note: "what this process computes for a fixed input differs from what a fresh process computes for it: something an earlier script did has stayed behind in the library"}
}
