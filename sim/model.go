package zz_verif_sim

// Reference model: a small-step interpreter of Yarn's sequential semantics over
// the AST, written from the property statements. No parser, no reflection, no
// goroutines. It predicts response kinds, nodes, texts, tags, options, the
// variable store and command hand-over; it never predicts error texts, markup
// attributes or random values.

import (
	"math"
	"strconv"
	"strings"
)

type OptResp struct {
	Text     string   `json:"text"`
	Tags     []string `json:"tags,omitempty"`
	Disabled bool     `json:"disabled,omitempty"`
}

// Resp is one observable answer of Next, on either side.
type Resp struct {
	Kind string    `json:"kind"` // line options end waiting error any panic hang
	Node string    `json:"node,omitempty"`
	Text string    `json:"text,omitempty"`
	Tags []string  `json:"tags,omitempty"`
	Opts []OptResp `json:"opts,omitempty"`
	Err  string    `json:"err,omitempty"`  // real side only, informational
	Wild bool      `json:"wild,omitempty"` // model: texts contain \x00 where a number's display form is not claimed
}

const (
	rLine      = "line"
	rOptions   = "options"
	rEnd       = "end"
	rWaiting   = "waiting"
	rError     = "error"
	rAny       = "any" // model: the properties leave the outcome open (value or error), only "no panic"
	rPanic     = "panic"
	rHostPanic = "hostpanic" // a panic raised by the host's own function came back to the host through Next
	rHang      = "hang"
)

// mErr is a model-side evaluation failure.
type mErr struct {
	any  bool // outcome left open by the properties
	what string
}

type frame struct {
	stmts []*Stmt
	i     int
}

// Sched says when and how an invoked command completes.
type Sched struct {
	Immediate bool `json:"immediate,omitempty"` // completes without waiting for a release
	Polls     int  `json:"polls,omitempty"`     // number of extra polls before the host releases it
	Err       bool `json:"err,omitempty"`       // completes with an error
	// Close: a channel-returning handler reports success by closing its channel without sending (and
	// closes it after sending when it reports an error); other shapes ignore it
	Close bool `json:"close,omitempty"`
}

// MInv is a command invocation as the model sees it.
type MInv struct {
	Index    int     `json:"index"`
	Name     string  `json:"name"`
	Args     []Val   `json:"args"`
	Done     bool    `json:"-"`
	Err      bool    `json:"-"`
	IsWait   bool    `json:"is_wait,omitempty"`
	Deadline int64   `json:"deadline,omitempty"` // ns of simulated time (wait only)
	WaitSecs float64 `json:"wait_secs,omitempty"`
	Sched    Sched   `json:"sched"`
}

type Model struct {
	prog     *Program
	store    map[string]Val
	counts   map[string]int
	cur      string
	stack    []*frame
	choosing *Stmt
	pending  *MInv
	handlers map[string]HandlerSpec
	scheds   []Sched
	invs     []*MInv  // invocations of host handlers, in order
	waits    []*MInv  // built-in waits
	calls    []string // host function call log, in order
	now      int64    // simulated ns
	steps    int
	stepCap  int
	discard  string // non-empty: the world leaves the predictable fragment (formatting, divergence)
	faulted  bool   // a script-level fault has been predicted; flow is no longer predicted
	curStmt  *Stmt  // the statement being executed (the one a fault is charged to)
	lastFail Resp   // what fail() answered last
	// set when the last waiting response was for a handler that completes on
	// its own goroutine without a release (the executor is lenient there)
	asyncImmediate bool
	wild           bool
}

func asyncShape(shape string) bool {
	return shape == "conv_none" || shape == "conv_error" || shape == "raw_unbuffered"
}

func newModel(p *Program, handlers []HandlerSpec, scheds []Sched) *Model {
	m := &Model{prog: p, store: map[string]Val{}, counts: map[string]int{}, handlers: map[string]HandlerSpec{}, scheds: scheds, stepCap: 2000}
	for _, h := range handlers {
		m.handlers[h.Name] = h
	}
	m.cur = p.Nodes[0].Title
	m.stack = []*frame{{stmts: p.Nodes[0].Body}}
	return m
}

func (m *Model) storeCopy() map[string]Val {
	c := make(map[string]Val, len(m.store))
	for k, v := range m.store {
		c[k] = v
	}
	return c
}

// ---- expressions ----

func (m *Model) eval(e *Expr) (Val, *mErr) {
	switch e.K {
	case eNum:
		return numV(e.N), nil
	case eBool:
		return boolV(e.B), nil
	case eStr:
		return strV(e.S), nil
	case eNull:
		return Val{}, &mErr{what: "null literal"}
	case eVar:
		v, ok := m.store[e.S]
		if !ok {
			return Val{}, &mErr{what: "unknown variable " + e.S}
		}
		return v, nil
	case eNeg:
		v, err := m.eval(e.A[0])
		if err != nil {
			return Val{}, err
		}
		if v.K != 'n' {
			return Val{}, &mErr{what: "negation of a non-number"}
		}
		return numV(-v.N), nil
	case eNot:
		v, err := m.eval(e.A[0])
		if err != nil {
			return Val{}, err
		}
		if v.K != 'b' {
			return Val{}, &mErr{what: "not of a non-boolean"}
		}
		return boolV(!v.B), nil
	case eBin:
		return m.evalBin(e)
	case eCall:
		return m.evalCall(e, true)
	}
	return Val{}, &mErr{what: "unknown expression"}
}

func (m *Model) evalBin(e *Expr) (Val, *mErr) {
	l, err := m.eval(e.A[0])
	if err != nil {
		return Val{}, err
	}
	if e.Op == "and" || e.Op == "or" {
		if l.K != 'b' {
			return Val{}, &mErr{what: "and/or on a non-boolean"}
		}
		if e.Op == "and" && !l.B {
			return boolV(false), nil
		}
		if e.Op == "or" && l.B {
			return boolV(true), nil
		}
	}
	r, err := m.eval(e.A[1])
	if err != nil {
		return Val{}, err
	}
	if l.K != r.K {
		return Val{}, &mErr{what: "operands of different types"}
	}
	needNum := func() *mErr {
		if l.K != 'n' {
			return &mErr{what: "operator " + e.Op + " needs numbers"}
		}
		return nil
	}
	switch e.Op {
	case "+":
		if l.K == 'n' {
			return numV(l.N + r.N), nil
		}
		if l.K == 's' {
			if len(l.S)+len(r.S) > 4096 {
				m.discard = "string growth beyond the world's size bound"
				return strV(""), nil
			}
			return strV(l.S + r.S), nil
		}
		return Val{}, &mErr{what: "+ on booleans"}
	case "-":
		if e := needNum(); e != nil {
			return Val{}, e
		}
		return numV(l.N - r.N), nil
	case "*":
		if e := needNum(); e != nil {
			return Val{}, e
		}
		return numV(l.N * r.N), nil
	case "/":
		if e := needNum(); e != nil {
			return Val{}, e
		}
		return numV(l.N / r.N), nil
	case "%":
		if e := needNum(); e != nil {
			return Val{}, e
		}
		return numV(math.Mod(l.N, r.N)), nil
	case "<":
		if e := needNum(); e != nil {
			return Val{}, e
		}
		return boolV(l.N < r.N), nil
	case "<=":
		if e := needNum(); e != nil {
			return Val{}, e
		}
		return boolV(l.N <= r.N), nil
	case ">":
		if e := needNum(); e != nil {
			return Val{}, e
		}
		return boolV(l.N > r.N), nil
	case ">=":
		if e := needNum(); e != nil {
			return Val{}, e
		}
		return boolV(l.N >= r.N), nil
	case "==", "!=":
		var eq bool
		switch l.K {
		case 'n':
			eq = l.N == r.N
		case 'b':
			eq = l.B == r.B
		default:
			eq = l.S == r.S
		}
		if e.Op == "!=" {
			eq = !eq
		}
		return boolV(eq), nil
	case "and", "or":
		// left operand did not decide
		return boolV(r.B), nil
	case "xor":
		if l.K != 'b' {
			return Val{}, &mErr{what: "xor on non-booleans"}
		}
		return boolV(l.B != r.B), nil
	}
	return Val{}, &mErr{what: "unknown operator"}
}

// evalCall evaluates a function call. asValue=false for <<call ...>> statements,
// where a function that returns nothing is fine.
func (m *Model) evalCall(e *Expr, asValue bool) (Val, *mErr) {
	args := make([]Val, 0, len(e.A))
	for _, a := range e.A {
		v, err := m.eval(a)
		if err != nil {
			return Val{}, err
		}
		args = append(args, v)
	}
	want := func(kinds string) *mErr {
		if len(args) != len(kinds) {
			return &mErr{what: "wrong number of arguments for " + e.S}
		}
		for i := range args {
			if args[i].K != kinds[i] {
				return &mErr{what: "wrong argument type for " + e.S}
			}
		}
		return nil
	}
	logCall := func() {
		s := e.S + "("
		for i, a := range args {
			if i > 0 {
				s += ","
			}
			s += a.canon()
		}
		m.calls = append(m.calls, s+")")
	}
	switch e.S {
	case "pn", "pnn":
		if err := want("n"); err != nil {
			return Val{}, err
		}
		logCall()
		return numV(probePN(args[0].N)), nil
	case "pn2":
		if err := want("nn"); err != nil {
			return Val{}, err
		}
		logCall()
		return numV(probePN2(args[0].N, args[1].N)), nil
	case "pb":
		if err := want("b"); err != nil {
			return Val{}, err
		}
		logCall()
		return boolV(!args[0].B), nil
	case "ps":
		if err := want("s"); err != nil {
			return Val{}, err
		}
		logCall()
		return strV(probePS(args[0].S)), nil
	case "pv", "enter":
		kinds := ""
		if e.S == "enter" {
			kinds = "s"
		}
		if err := want(kinds); err != nil {
			return Val{}, err
		}
		logCall()
		if asValue {
			return Val{}, &mErr{what: "function without a result used as a value"}
		}
		return Val{}, nil
	case "pw":
		// a host function that writes a number variable through the storer while the script runs
		if err := want("sn"); err != nil {
			return Val{}, err
		}
		logCall()
		if asValue {
			return Val{}, &mErr{what: "function without a result used as a value"}
		}
		m.store[args[0].S] = numV(args[1].N)
		return Val{}, nil
	case "prr":
		if len(args) != 2 || args[0].K != 's' {
			return Val{}, &mErr{what: "wrong arguments for prr"}
		}
		logCall()
		return args[1], nil
	case "pclr":
		if err := want(""); err != nil {
			return Val{}, err
		}
		logCall()
		m.store = map[string]Val{}
		return numV(1), nil
	case "pty":
		if err := want("s"); err != nil {
			return Val{}, err
		}
		logCall()
		cur, ok := m.store[args[0].S]
		switch {
		case ok && cur.K == 's':
			m.store[args[0].S] = numV(7)
			return strV("Bob"), nil
		case ok && cur.K == 'n':
			m.store[args[0].S] = strV("x")
			return numV(5), nil
		case ok && cur.K == 'b':
			m.store[args[0].S] = numV(7)
			return boolV(true), nil
		}
		m.store[args[0].S] = numV(7)
		return numV(7), nil
	case "pfail":
		if err := want("n"); err != nil {
			return Val{}, err
		}
		logCall()
		return Val{}, &mErr{what: "host function reported an error"}
	case "string":
		if len(args) != 1 {
			return Val{}, &mErr{what: "wrong number of arguments for string"}
		}
		d, ok := args[0].display()
		if !ok {
			return Val{}, &mErr{any: true, what: "display form of a number outside the claimed fragment"}
		}
		return strV(d), nil
	case "visited":
		if err := want("s"); err != nil {
			return Val{}, err
		}
		return boolV(m.counts[args[0].S] > 0), nil
	case "visited_count":
		if err := want("s"); err != nil {
			return Val{}, err
		}
		return numV(float64(m.counts[args[0].S])), nil
	case "dice":
		if err := want("n"); err != nil {
			return Val{}, err
		}
		return m.randomInt(1, args[0].N)
	case "random_range":
		if err := want("nn"); err != nil {
			return Val{}, err
		}
		return m.randomInt(args[0].N, args[1].N)
	case "random":
		if err := want(""); err != nil {
			return Val{}, err
		}
		return Val{}, &mErr{any: true, what: "random value"}
	}
	return Val{}, &mErr{what: "unknown function " + e.S}
}

// randomInt: the model cannot know the value; it only knows when an error is
// required (empty or unrepresentable integer range) and when the properties
// leave the outcome open.
func (m *Model) randomInt(lo, hi float64) (Val, *mErr) {
	integral := func(x float64) bool { return !math.IsNaN(x) && !math.IsInf(x, 0) && x == math.Trunc(x) }
	if !integral(lo) || !integral(hi) {
		return Val{}, &mErr{any: true, what: "non-integer bound"}
	}
	const lim = 9.2e18
	if math.Abs(lo) >= lim || math.Abs(hi) >= lim || hi-lo >= lim {
		return Val{}, &mErr{what: "bounds beyond the integer range"}
	}
	if hi < lo {
		return Val{}, &mErr{what: "empty range"}
	}
	return Val{}, &mErr{any: true, what: "random value"}
}

func probePN(x float64) float64     { return x + 1 }
func probePN2(a, b float64) float64 { return a*2 + b }
func probePS(s string) string       { return s + "z" }

// ---- statements ----

func (m *Model) renderLine(l *LineS) (string, *mErr) {
	var sb strings.Builder
	for _, p := range l.Parts {
		if p.E == nil {
			sb.WriteString(p.Text)
			continue
		}
		v, err := m.eval(p.E)
		if err != nil {
			return "", err
		}
		d, ok := v.display()
		if !ok {
			d = "\x00"
			m.wild = true
		}
		if v.K == 's' && markupSensitive(v.S) {
			return "", &mErr{any: true, what: "host string with markup metacharacters"}
		}
		sb.WriteString(d)
	}
	return strings.TrimSpace(sb.String()), nil
}

func markupSensitive(s string) bool {
	for _, r := range s {
		if r == '[' || r == ']' || r == '\\' || r == 0xFFFD {
			return true
		}
	}
	return false
}

func (m *Model) fail(e *mErr) Resp {
	m.faulted = true
	if e.any {
		m.lastFail = Resp{Kind: rAny, Err: e.what}
	} else {
		m.lastFail = Resp{Kind: rError, Err: e.what}
	}
	return m.lastFail
}

// ContinueAfterFault: a statement that failed with a definite error has been consumed and changed
// nothing; the dialogue goes on with the statement after it ("after an error the runner remains
// usable"). That includes an option group that failed to be shown: no choice is pending after it.
// Not where the outcome of the fault itself is open.
func (m *Model) ContinueAfterFault() bool {
	if !m.faulted || m.discard != "" || m.lastFail.Kind != rError || m.curStmt == nil || m.choosing != nil {
		return false
	}
	m.faulted = false
	return true
}

func (m *Model) execSet(s *Stmt) *mErr {
	val, err := m.eval(s.E)
	if err != nil {
		return err
	}
	prev, ok := m.store[s.Var]
	op := s.Op
	if s.K == sDeclare {
		op = "="
	}
	if ok && prev.K != val.K {
		return &mErr{what: "a variable never changes type"}
	}
	if !ok && op != "=" {
		return &mErr{what: "compound assignment to an unknown variable"}
	}
	switch val.K {
	case 'n':
		switch op {
		case "=":
			m.store[s.Var] = val
		case "+=":
			m.store[s.Var] = numV(prev.N + val.N)
		case "-=":
			m.store[s.Var] = numV(prev.N - val.N)
		case "*=":
			m.store[s.Var] = numV(prev.N * val.N)
		case "/=":
			m.store[s.Var] = numV(prev.N / val.N)
		case "%=":
			m.store[s.Var] = numV(math.Mod(prev.N, val.N))
		}
	case 'b':
		if op != "=" {
			return &mErr{what: "compound assignment on a boolean"}
		}
		m.store[s.Var] = val
	case 's':
		switch op {
		case "=":
			m.store[s.Var] = val
		case "+=":
			if len(prev.S)+len(val.S) > 4096 {
				m.discard = "string growth beyond the world's size bound"
				return nil
			}
			m.store[s.Var] = strV(prev.S + val.S)
		default:
			return &mErr{what: "unsupported compound assignment on a string"}
		}
	}
	return nil
}

func (m *Model) jump(target string) *mErr {
	n := m.prog.find(target)
	if n == nil {
		return &mErr{what: "unknown node " + target}
	}
	if cur := m.prog.find(m.cur); cur != nil && cur.Tracking != "never" {
		m.counts[m.cur]++
	}
	m.stack = []*frame{{stmts: n.Body}}
	m.cur = n.Title
	return nil
}

// Advance moves simulated time.
func (m *Model) Advance(ns int64) {
	m.now += ns
	if m.pending != nil && m.pending.IsWait && m.now >= m.pending.Deadline {
		m.pending.Done = true
	}
}

// Release marks the outstanding invocation as completed by the host.
func (m *Model) Release(err bool) {
	if m.pending != nil && !m.pending.IsWait {
		m.pending.Done = true
		m.pending.Err = err
	}
}

func (m *Model) Write(name string, v Val) { m.store[name] = v }
func (m *Model) Clear()                   { m.store = map[string]Val{} }

// HostState is the host's view of the runner.
func (m *Model) HostState() string {
	switch {
	case m.pending != nil && !m.pending.Done:
		return "PENDING"
	case m.pending != nil:
		return "COMPLETED"
	case m.choosing != nil:
		return "CHOOSING"
	case len(m.stack) == 0:
		return "ENDED"
	}
	return "READY"
}

// Next is the model's step function.
func (m *Model) Next(arg int) Resp {
	if m.pending != nil {
		if !m.pending.Done {
			return Resp{Kind: rWaiting}
		}
		failed := m.pending.Err
		m.pending = nil
		if failed {
			return Resp{Kind: rError, Err: "command reported an error"}
		}
	}
	if m.choosing != nil {
		opts := m.choosing.Options
		m.choosing = nil
		if arg < 0 || arg >= len(opts) {
			m.faulted = true
			return Resp{Kind: rAny, Err: "choice out of range"}
		}
		if body := opts[arg].Body; len(body) > 0 {
			m.stack = append(m.stack, &frame{stmts: body})
		}
	}
	for {
		m.steps++
		if m.discard != "" {
			return Resp{Kind: rEnd}
		}
		if m.steps > m.stepCap {
			m.discard = "step budget exceeded (non-yielding cycle)"
			return Resp{Kind: rEnd}
		}
		if len(m.stack) == 0 {
			return Resp{Kind: rEnd}
		}
		f := m.stack[len(m.stack)-1]
		if f.i >= len(f.stmts) {
			m.stack = m.stack[:len(m.stack)-1]
			continue
		}
		s := f.stmts[f.i]
		f.i++
		m.curStmt = s
		switch s.K {
		case sLine:
			text, err := m.renderLine(s.Line)
			if err != nil {
				return m.fail(err)
			}
			w := m.wild
			m.wild = false
			return Resp{Kind: rLine, Node: m.cur, Text: text, Tags: s.Line.Tags, Wild: w}
		case sOptions:
			r := Resp{Kind: rOptions, Node: m.cur}
			for _, o := range s.Options {
				text, err := m.renderLine(o.Line)
				if err != nil {
					return m.fail(err)
				}
				dis := false
				if o.Line.Cond != nil {
					c, err := m.eval(o.Line.Cond)
					if err != nil {
						return m.fail(err)
					}
					if c.K != 'b' {
						return m.fail(&mErr{what: "option condition is not a boolean"})
					}
					dis = !c.B
				}
				r.Opts = append(r.Opts, OptResp{Text: text, Tags: o.Line.Tags, Disabled: dis})
			}
			m.choosing = s
			r.Wild = m.wild
			m.wild = false
			return r
		case sSet, sDeclare:
			if err := m.execSet(s); err != nil {
				return m.fail(err)
			}
		case sJump:
			if err := m.jump(s.Target); err != nil {
				return m.fail(err)
			}
		case sJumpE:
			v, err := m.eval(s.E)
			if err != nil {
				return m.fail(err)
			}
			if v.K != 's' {
				return m.fail(&mErr{what: "jump target is not a string"})
			}
			if err := m.jump(v.S); err != nil {
				return m.fail(err)
			}
		case sIf:
			for _, c := range s.Clauses {
				take := true
				if c.Cond != nil {
					v, err := m.eval(c.Cond)
					if err != nil {
						return m.fail(err)
					}
					if v.K != 'b' {
						return m.fail(&mErr{what: "condition is not a boolean"})
					}
					take = v.B
				}
				if take {
					if len(c.Body) > 0 {
						m.stack = append(m.stack, &frame{stmts: c.Body})
					}
					break
				}
			}
		case sStop:
			m.stack = nil
			return Resp{Kind: rEnd}
		case sCall:
			if _, err := m.evalCall(s.E, false); err != nil {
				return m.fail(err)
			}
		case sCommand:
			args := make([]Val, 0, len(s.Args))
			for _, a := range s.Args {
				if a.E != nil {
					v, err := m.eval(a.E)
					if err != nil {
						return m.fail(err)
					}
					args = append(args, v)
				} else {
					args = append(args, wordValue(a.Word))
				}
			}
			if s.Cmd == "stop" {
				m.stack = nil
				return Resp{Kind: rEnd}
			}
			if _, hostsOwn := m.handlers["wait"]; s.Cmd == "wait" && !hostsOwn {
				if len(args) != 1 || args[0].K != 'n' {
					return m.fail(&mErr{what: "wait needs exactly one number"})
				}
				return m.startWait(args[0].N)
			}
			h, ok := m.handlers[s.Cmd]
			if !ok {
				return m.fail(&mErr{what: "unknown command " + s.Cmd})
			}
			if err := checkHandlerArgs(h, args); err != nil {
				return m.fail(err)
			}
			if oddShape(h.Shape) {
				return m.fail(&mErr{any: true, what: "command handler with an unusual channel result"})
			}
			inv := &MInv{Index: len(m.invs), Name: s.Cmd, Args: args}
			if len(m.scheds) > 0 {
				inv.Sched = m.scheds[inv.Index%len(m.scheds)]
			}
			if h.Shape == "raw_prefilled" {
				inv.Sched.Immediate = true
			}
			if h.Shape == "conv_none" {
				inv.Sched.Err = false // this shape cannot report an error
			}
			m.invs = append(m.invs, inv)
			if inv.Sched.Immediate {
				inv.Done, inv.Err = true, inv.Sched.Err
				if !asyncShape(h.Shape) {
					// completion is already in the channel when the handler returns
					if inv.Err {
						return Resp{Kind: rError, Err: "command reported an error"}
					}
					continue
				}
				// the handler runs on its own goroutine: under the simulator's
				// scheduling it cannot have reported before the dispatching call returns
				m.asyncImmediate = true
			}
			m.pending = inv
			return Resp{Kind: rWaiting}
		case sWait:
			v, err := m.eval(s.E)
			if err != nil {
				return m.fail(err)
			}
			if v.K != 'n' {
				return m.fail(&mErr{what: "wait needs a number"})
			}
			return m.startWait(v.N)
		}
	}
}

func (m *Model) startWait(secs float64) Resp {
	inv := &MInv{Index: len(m.invs), Name: "wait", Args: []Val{numV(secs)}, IsWait: true, WaitSecs: secs}
	inv.Deadline = m.now + secondsToNsCeil(secs)
	m.waits = append(m.waits, inv)
	m.pending = inv
	if m.now >= inv.Deadline {
		inv.Done = true
		m.asyncImmediate = true
	}
	return Resp{Kind: rWaiting}
}

// secondsToNsCeil converts n seconds to whole nanoseconds, rounding up, so the
// model's deadline is never earlier than n seconds.
func secondsToNsCeil(n float64) int64 {
	if n <= 0 || math.IsNaN(n) {
		return 0
	}
	ns := math.Ceil(n * 1e9)
	if ns > 9e18 {
		return int64(9e18)
	}
	return int64(ns)
}

// wordValue types a literal command word the way the properties describe:
// true/false are booleans, decimal literals numbers, everything else a string.
func wordValue(w string) Val {
	if w == "true" {
		return boolV(true)
	}
	if w == "false" {
		return boolV(false)
	}
	neg := false
	d := w
	if strings.HasPrefix(d, "-") {
		neg = true
		d = d[1:]
	}
	if d != "" {
		val, frac, seenDot, ok := 0.0, 0.1, false, true
		digits := 0
		for _, c := range d {
			switch {
			case c >= '0' && c <= '9':
				digits++
				if seenDot {
					val += float64(c-'0') * frac
					frac /= 10
				} else {
					val = val*10 + float64(c-'0')
				}
			case c == '.' && !seenDot && digits > 0:
				seenDot = true
				digits = 0
			default:
				ok = false
			}
		}
		if ok && digits > 0 {
			// only simple literals are generated (few digits), exact in binary or compared via the handler's typed parameter
			if neg {
				val = -val
			}
			// the value of a decimal literal is the nearest float64 (digit-by-digit accumulation is one ulp off for some)
			if exact, err := strconv.ParseFloat(w, 64); err == nil {
				val = exact
			}
			return numV(val)
		}
	}
	return strV(w)
}

func checkHandlerArgs(h HandlerSpec, args []Val) *mErr {
	if h.Shape == "raw_prefilled" || h.Shape == "raw_buffered" || h.Shape == "raw_unbuffered" {
		return nil // raw handlers take whatever comes
	}
	n := len(h.Params)
	if h.Vari == "" && len(args) != n {
		return &mErr{what: "wrong number of command arguments"}
	}
	if len(args) < n {
		return &mErr{what: "too few command arguments"}
	}
	for i, a := range args {
		k := h.Vari
		if i < n {
			k = h.Params[i]
		}
		if yarnKindOfGo(k) != a.K {
			return &mErr{what: "wrong command argument type"}
		}
	}
	return nil
}
