package zz_verif_sim

// C20 — (a) indentation-token balance of the lexer under the C05 stream faults;
// (b) operation histories on container.Queue / container.Stack against a slice.
// Part (b) has no fault or schedule dimension (single-threaded, in-memory types):
// it is history refinement against a reference model, nothing more.

import (
	"fmt"

	"github.com/remieven/ysgo/internal/container"
)

type contOp struct {
	K string `json:"k"` // enq deq peek size | push pushall pop peek size clear
	N int    `json:"n,omitempty"`
}

func c20World(tp *Tape, env *Env) (*Plan, *Violation) {
	switch tp.Int(0, 2, "c20kind") {
	case 0:
		return c20Queue(tp, env)
	case 1:
		return c20Stack(tp, env)
	}
	return c20Tokens(tp, env)
}

func c20Queue(tp *Tape, env *Env) (*Plan, *Violation) {
	n := tp.Int(1, 120, "nqops")
	// phases bias the history towards "full, then shifted, then growing"
	var ops []contOp
	bias := tp.Int(0, 3, "bias")
	for i := 0; i < n; i++ {
		w := []int{5, 3, 1, 1}
		switch bias {
		case 1:
			w = []int{8, 2, 1, 1}
		case 2:
			if i%24 < 12 {
				w = []int{9, 1, 0, 1}
			} else {
				w = []int{3, 6, 1, 1}
			}
		case 3:
			w = []int{4, 5, 1, 1}
		}
		ops = append(ops, contOp{K: []string{"enq", "deq", "peek", "size"}[tp.Pick(w, "qop")]})
	}
	plan := &Plan{Harness: 1, Property: "C20", Extra: map[string]any{"queue_ops": ops}}
	env.St.sample(map[string]any{"queue_history": opString(ops)})
	journal(plan)
	return plan, c20QueueExec(ops, env.St)
}

func opString(ops []contOp) string {
	s := ""
	for _, o := range ops {
		s += o.K[:1]
		if o.K == "pushall" {
			s += fmt.Sprint(o.N)
		}
		if o.K == "peek" {
			s = s[:len(s)-1] + "k"
		}
		if o.K == "pop" {
			s = s[:len(s)-1] + "o"
		}
		if o.K == "size" {
			s = s[:len(s)-1] + "z"
		}
	}
	return s
}

func catchPanic(f func()) (msg any) {
	defer func() { msg = recover() }()
	f()
	return nil
}

func c20QueueExec(ops []contOp, st *Stats) *Violation {
	var q container.Queue[int]
	var model []int
	next := 1
	capacity, head, growths, grewWrapped := 8, 0, 0, 0
	for i, o := range ops {
		switch o.K {
		case "enq":
			if len(model) == capacity { // tracked only for the coverage probe
				growths++
				if head > 0 {
					grewWrapped++
				}
				capacity *= 2
				head = 0
			}
			if p := catchPanic(func() { q.Enqueue(next) }); p != nil {
				return &Violation{Clause: "C20.queue-order", OpIndex: i, Observed: fmt.Sprint(p), Note: "Enqueue panicked"}
			}
			model = append(model, next)
			next++
		case "deq", "peek":
			var got int
			p := catchPanic(func() {
				if o.K == "deq" {
					got = q.Dequeue()
				} else {
					got = q.Peek()
				}
			})
			if len(model) == 0 {
				// what an empty queue answers (today: a panic) is not part of the property; its size below is
				continue
			}
			if p != nil {
				return &Violation{Clause: "C20.queue-order", OpIndex: i, Expected: model[0], Observed: fmt.Sprint(p), Note: o.K + " panicked on a non-empty queue"}
			}
			if got != model[0] {
				return &Violation{Clause: "C20.queue-order", OpIndex: i, Expected: model[0], Observed: got, Note: fmt.Sprintf("%s after %d ops, %d growths", o.K, i, growths)}
			}
			if o.K == "deq" {
				model = model[1:]
				head = (head + 1) % capacity
				if len(model) == 0 {
					head = 0
				}
			}
		}
		if got := q.Size(); got != len(model) {
			return &Violation{Clause: "C20.queue-size", OpIndex: i, Expected: len(model), Observed: got, Note: fmt.Sprintf("Size after %s (op %d, %d growths)", o.K, i, growths)}
		}
	}
	if st != nil {
		st.inc("cases", 1)
		st.inc("container_ops", int64(len(ops)))
		if growths >= 1 {
			st.distinct("nontrivial", hashStr("q", opString(ops)))
		}
		if grewWrapped >= 1 {
			st.probe("queue_grew_while_wrapped")
		}
		if grewWrapped >= 2 {
			st.probe("queue_grew_while_wrapped_twice")
		}
	}
	return nil
}

func c20Stack(tp *Tape, env *Env) (*Plan, *Violation) {
	n := tp.Int(1, 80, "nsops")
	var ops []contOp
	for i := 0; i < n; i++ {
		k := []string{"push", "pushall", "pop", "peek", "size", "clear"}[tp.Pick([]int{6, 2, 5, 2, 1, 1}, "sop")]
		o := contOp{K: k}
		if k == "pushall" {
			o.N = tp.Int(0, 5, "npush")
		}
		ops = append(ops, o)
	}
	plan := &Plan{Harness: 1, Property: "C20", Extra: map[string]any{"stack_ops": ops}}
	journal(plan)
	return plan, c20StackExec(ops, env.St)
}

func c20StackExec(ops []contOp, st *Stats) *Violation {
	var s container.Stack[int]
	var model []int
	next := 1
	maxDepth := 0
	for i, o := range ops {
		switch o.K {
		case "push":
			s.Push(next)
			model = append(model, next)
			next++
		case "pushall":
			// the caller's slice stays the caller's: it has spare capacity and is overwritten after the call
			vals := make([]int, 0, o.N+3)
			for k := 0; k < o.N; k++ {
				vals = append(vals, next)
				next++
			}
			s.PushAll(vals...)
			model = append(model, vals...)
			for k := range vals {
				vals[k] = -1000 - k
			}
			vals = append(vals, -7, -8, -9)
		case "pop", "peek":
			var got int
			p := catchPanic(func() {
				if o.K == "pop" {
					got = s.Pop()
				} else {
					got = s.Peek()
				}
			})
			if len(model) == 0 {
				// what an empty stack answers (today: a panic) is not part of the property; its size below is
				continue
			}
			if p != nil || got != model[len(model)-1] {
				return &Violation{Clause: "C20.stack-order", OpIndex: i, Expected: model[len(model)-1], Observed: fmt.Sprint(got, p), Note: o.K}
			}
			if o.K == "pop" {
				model = model[:len(model)-1]
			}
		case "clear":
			s.Clear()
			model = model[:0]
		}
		if len(model) > maxDepth {
			maxDepth = len(model)
		}
		if got := s.Size(); got != len(model) {
			return &Violation{Clause: "C20.stack-size", OpIndex: i, Expected: len(model), Observed: got, Note: "Size after " + o.K}
		}
	}
	if st != nil {
		st.inc("cases", 1)
		st.inc("container_ops", int64(len(ops)))
		if maxDepth >= 4 {
			st.distinct("nontrivial", hashStr("s", fmt.Sprint(ops)))
		}
	}
	return nil
}

func c20TokenCase(b []byte, st *Stats) *Violation {
	if journalFile != "" {
		journal(&Plan{Harness: 1, Property: "C20", World: World{Readers: oneReader(b)}})
	}
	problem, skipped, indents := tokenBalance(b)
	if st != nil {
		st.inc("cases", 1)
		st.inc("token_streams", 1)
		if skipped {
			st.inc("token_streams_refused_by_lexer", 1)
		}
		if indents > 8 {
			st.probe("stream_with_more_than_8_indents")
		}
		if indents >= 2 {
			st.distinct("nontrivial", hashStr("t", string(b)))
		}
	}
	if problem == "" {
		return nil
	}
	clause := "C20.unbalanced"
	switch {
	case len(problem) > 6 && problem[:6] == "DEDENT":
		clause = "C20.dedent-excess"
	case problem == "a token follows EOF" || problem == "no EOF token within the token budget":
		clause = "C20.eof"
	case len(problem) > 3 && problem[:3] == "nil":
		clause = "C20.nil-token"
	}
	return &Violation{Clause: clause, OpIndex: -1, Observed: problem}
}

func c20Tokens(tp *Tape, env *Env) (*Plan, *Violation) {
	cfg := &GenCfg{
		MaxNodes: 2, MaxStmts: 4, MaxDepth: 4, MaxTotal: tp.Int(3, 30, "size"),
		WLine: 6, WOptions: 8, WIf: 5, WSet: 1, WJump: 1, WCommand: 1,
		NVars: [3]int{1, 1, 0}, ExprDepth: 1, InlinePct: 10, TagPct: 10, CondPct: 10, NoDeclarePrelude: true, NoLongLines: true,
		Handlers: []HandlerSpec{{Name: "c0", Shape: "raw_prefilled"}},
	}
	g := &gen{tp: tp, cfg: cfg}
	prog := g.program()
	layout := genLayout(tp)
	layout.IndentIf = true
	base := []byte(renderNodes(prog.Nodes, layout, 0))
	rng := &splitmix{s: tp.Uint64("streamseed")}
	var plan *Plan
	var viol *Violation
	check := func(b []byte, kind string) bool {
		if v := c20TokenCase(b, env.St); v != nil {
			viol = v
			plan = &Plan{Harness: 1, Property: "C20", Program: prog, World: World{Readers: oneReader(b)}, Extra: map[string]any{"fault": kind}}
			return false
		}
		env.St.fault(kind)
		return true
	}
	if !check(base, "unmutated") {
		return plan, viol
	}
	faultedStreams(base, rng, 500, 24, func(sc streamCase) bool {
		if sc.ReadErr || len(sc.Readers) != 1 {
			return true
		}
		return check(sc.Readers[0].bytes(), sc.Kind)
	})
	env.St.sample(map[string]any{"token_stream_base_script": string(base)})
	if plan == nil {
		plan = &Plan{Harness: 1, Property: "C20", Program: prog}
	}
	return plan, viol
}

func c20Replay(plan *Plan) *Violation {
	if ops, ok := decodeExtra[[]contOp](plan, "queue_ops"); ok {
		return c20QueueExec(ops, nil)
	}
	if ops, ok := decodeExtra[[]contOp](plan, "stack_ops"); ok {
		return c20StackExec(ops, nil)
	}
	if len(plan.World.Readers) == 1 {
		return c20TokenCase(plan.World.Readers[0].bytes(), nil)
	}
	return nil
}
