package zz_verif_sim

// C12 — the end is absorbing. Model-free: drive the real runner to its first
// end, then keep calling with arbitrary arguments, interleaved with host writes
// and clock advances; every answer must be the end again and nothing the runner
// owns may move (handler, function and storer-write logs).

import (
	"fmt"

	"github.com/remieven/ysgo"
	"github.com/remieven/ysgo/variable"
)

func c12World(tp *Tape, env *Env) (*Plan, *Violation) {
	cfg := &GenCfg{
		MaxNodes: 3, MaxStmts: 5, MaxDepth: 3, MaxTotal: 26,
		WLine: 7, WOptions: 6, WIf: 4, WSet: 4, WJump: 1, WJumpE: 0, WStop: 5, WCall: 3, WCommand: 3,
		NVars: [3]int{1, 1, 1}, Probes: true, ExprDepth: 1, InlinePct: 15, CondPct: 20, StopArgs: true, ExprOnlyLines: true, NoStringSelfGrowth: true,
	}
	if tp.Chance(12, "hostpanics") {
		// a host whose function panics with a value of its own and that survives it (recover around Next): whatever
		// the runner makes of that, an end it reports afterwards is final
		cfg.HostPanics = true
		cfg.WCall += 3
	}
	if tp.Chance(40, "nocmd") {
		cfg.WCommand = 0
	} else {
		cfg.Handlers = drawHandlers(tp, 2)
	}
	if tp.Chance(30, "withfaults") {
		// failing statements on the way: an error is not the end, and the end reached after errors is as final as any
		cfg.Faults, cfg.WFault = tp.Int(1, 3, "nfaults"), 3
		env.St.probe("world_with_failing_statements_on_the_way")
	}
	g := &gen{tp: tp, cfg: cfg}
	prog := g.program()
	if tp.Chance(15, "deepchain") {
		g.addDeepChain(prog, []string{"stop", "stop", "none"})
		env.St.probe("stop_inside_block_chain_6_to_12_deep")
	}
	g.ensureYieldingCycles(prog)
	layout := genLayout(tp)
	w := World{Readers: distribute(tp, prog, layout, 2)}
	hostHandlers := cfg.Handlers
	if tp.Chance(20, "hoststop") {
		// a host may register a command under any name, also "stop": <<stop>> still ends the dialogue and is never dispatched
		hostHandlers = append(append([]HandlerSpec{}, hostHandlers...), HandlerSpec{Name: "stop", Shape: handlerShapes[tp.Int(0, len(handlerShapes)-1, "stopshape")]})
		env.St.probe("host_registered_a_stop_command")
	}
	w.Host = HostSpec{Storer: []string{"rec", "mem"}[tp.Int(0, 1, "storer")], Probes: true, Seed: "s1", Handlers: hostHandlers}
	if len(hostHandlers) > 0 {
		w.Host.Scheds = []Sched{{Immediate: tp.Bool("immediate")}}
	}
	// raw choice arguments for the way to the end, then the post-end schedule
	var ops []Op
	for i := 0; i < 30; i++ {
		ops = append(ops, Op{K: "next", Arg: tp.Int(0, 3, "choice")})
	}
	var post []Op
	np := tp.Int(1, 8, "npost")
	for i := 0; i < np; i++ {
		if tp.Chance(25, "postwrite") {
			v := numV(float64(tp.Int(0, 9, "postnum")))
			post = append(post, Op{K: "write", Var: []string{"h0", "n0"}[tp.Int(0, 1, "postvar")], Val: &v})
		}
		if tp.Chance(15, "postadvance") {
			post = append(post, Op{K: "advance", Ns: int64(tp.Int(1, 5000, "ms")) * 1e6})
		}
		if tp.Chance(15, "postrelease") {
			post = append(post, Op{K: "release_all"})
		}
		if tp.Chance(10, "postsnapshot") {
			post = append(post, Op{K: "snapshot", Slot: 7})
		}
		if tp.Chance(10, "postregister") {
			post = append(post, Op{K: "register"})
		}
		if tp.Chance(10, "postbadrestore") {
			// a restore the runner may refuse (an unknown node; a snapshot with a hollow value in it)
			post = append(post, Op{K: "restore_refusable", Arg: tp.Int(0, 1, "badrestorekind")})
		}
		post = append(post, Op{K: "next", Arg: junkArgs[tp.Int(0, len(junkArgs)-1, "junk")]})
	}
	plan := &Plan{Harness: 1, Property: "C12", Program: prog, Layout: &layout, World: w, Ops: ops,
		Extra: map[string]any{"post": post, "restore": tp.Chance(25, "restore"), "snap_at": tp.Int(0, 4, "snapat")}}
	env.St.sample(map[string]any{"script": readerTexts(&w), "post_end": describeDynOps(post)})
	journal(plan)
	return plan, c12Exec(plan, env.St)
}

func c12Exec(plan *Plan, st *Stats) *Violation {
	post, _ := decodeExtra[[]Op](plan, "post")
	doRestore, _ := decodeExtra[bool](plan, "restore")
	snapAt, _ := decodeExtra[int](plan, "snap_at")
	if f, ok := plan.Extra["snap_at"].(float64); ok {
		snapAt = int(f)
	}
	w := &plan.World
	bubble := needsBubble(w, nil, plan.Program)
	var viol *Violation
	body := func() {
		d, err := newDyn(w, bubble)
		if err != nil {
			if st != nil {
				st.inc("assumption_breaks.C05", 1)
			}
			return
		}
		defer func() {
			d.h.Close()
			drain(bubble)
		}()
		var snap *ysgo.Snapshot
		toEnd := func() bool {
			for i := range plan.Ops {
				if i == snapAt && snap == nil {
					snap = d.h.dr.Snapshot()
				}
				r := d.apply(&plan.Ops[i])
				switch r.Kind {
				case rEnd:
					return true
				case rPanic:
					return false
				case rWaiting:
					d.apply(&Op{K: "release_all"})
					d.apply(&Op{K: "advance", Ns: 1000 * 1e9})
				}
			}
			return false
		}
		absorb := func(round int) *Violation {
			nonzero := false
			for i := range post {
				op := &post[i]
				if op.K == "restore_refusable" {
					bad := &ysgo.Snapshot{CurrentNode: "No such node"}
					if op.Arg == 1 && plan.Program != nil && len(plan.Program.Nodes) > 0 {
						bad = &ysgo.Snapshot{CurrentNode: plan.Program.Nodes[0].Title, Variables: map[string]variable.Value{"hollow": {}}}
					}
					err, pv := safeRestore(d, bad)
					if pv != nil || err == nil {
						return nil // accepted (the dialogue legitimately starts over) or C07's business
					}
					if st != nil {
						st.probe("restore_refused_after_the_end")
					}
					continue // refused: nothing may have changed, the dialogue is still over
				}
				if op.K != "next" {
					d.apply(op)
					continue
				}
				ev0 := d.h.nEvents()
				storeBefore := d.h.StoreCanon()
				last := d.last
				r := d.h.Next(op.Arg) // raw argument: nothing is being chosen
				settle(bubble)
				if d.h.releaseAuto() {
					settle(bubble)
				}
				d.last = last
				if op.Arg != 0 {
					nonzero = true
				}
				where := fmt.Sprintf("post-end call %d of round %d with argument %d", i, round, op.Arg)
				if r.Kind == rPanic {
					return &Violation{Clause: "C12.panic", OpIndex: i, Observed: r, Note: where}
				}
				if r.Kind != rEnd {
					return &Violation{Clause: "C12.resurrect", OpIndex: i, Expected: Resp{Kind: rEnd}, Observed: r, Note: where + ": the dialogue had already reported its end"}
				}
				if evs := d.h.eventsFrom(ev0); len(evs) > 0 {
					return &Violation{Clause: "C12.side-effect", OpIndex: i, Observed: evs, Note: where}
				}
				if a := d.h.StoreCanon(); !sameStrMap(a, storeBefore) {
					return &Violation{Clause: "C12.side-effect", OpIndex: i, Expected: fmtStrMap(storeBefore), Observed: fmtStrMap(a), Note: where + ": variables changed"}
				}
				if st != nil {
					st.inc("post_end_calls", 1)
				}
			}
			if st != nil {
				st.inc("cases", 1)
				sh := shapeOf(plan.Program)
				if len(post) >= 2 && nonzero && (sh.nStops > 0 || sh.nOptions > 0) {
					st.distinct("nontrivial", hashStr(fmt.Sprint(hashJSON(plan.Program)), fmt.Sprint(hashJSON(plan.Ops)), fmt.Sprint(hashJSON(post)), fmt.Sprint(round)))
				}
			}
			return nil
		}
		if !toEnd() {
			if st != nil {
				st.inc("worlds_not_ending_within_budget", 1)
			}
			return
		}
		if st != nil {
			if d.nNext < len(plan.Ops) {
				st.probe("ended_by_stop_or_node_end")
			}
			if sh := shapeOf(plan.Program); sh.nStops > 0 {
				st.probe("end_with_statements_still_queued")
			}
			for _, o := range post {
				if o.K == "next" && (o.Arg > 3 || o.Arg < 0) {
					st.probe("post_end_call_with_out_of_range_argument")
					break
				}
			}
		}
		if viol = absorb(0); viol != nil {
			return
		}
		if doRestore && snap != nil {
			if err, pv := safeRestore(d, snap); err != nil || pv != nil {
				return
			}
			d.last = Resp{}
			if st != nil {
				st.fault("crash_restore")
			}
			if toEnd() {
				viol = absorb(1)
			}
		}
	}
	if bubble {
		if dl, msg := inBubble(body); dl && viol == nil {
			viol = &Violation{Clause: "C12.panic", OpIndex: -1, Observed: msg, Note: "a call blocked"}
		}
	} else {
		body()
	}
	return viol
}
