package zz_verif_sim

// C05 — loading under stream faults. For every base script (generated, valid by
// construction; plus /repo's own .yarn fixtures) every truncation offset and
// every single-byte deletion are enumerated, byte flips / insertions / line-level
// mutations / read errors / byte-level reader splits / seeds / random bytes are
// sampled; each faulted stream is loaded through the real NewDialogueRunner and
// judged against the independent syntax verdict.

import (
	"fmt"
	"os"
	"path/filepath"
	"sort"
	"strings"
	"time"
)

type loadOutcome struct {
	Runner bool   `json:"runner"`
	Err    string `json:"err,omitempty"`
	Panic  string `json:"panic,omitempty"`
}

func loadCase(sc *streamCase, chunks []int, eof int) (loadOutcome, *Host) {
	w := World{Readers: append([]ReaderSpec{}, sc.Readers...), Host: HostSpec{Storer: "default", Seed: sc.Seed}}
	for i := range w.Readers {
		w.Readers[i].Chunks = chunks
		w.Readers[i].EOF = eof
	}
	h, pv := newHost(&w)
	out := loadOutcome{}
	if pv != nil {
		out.Panic = fmt.Sprint(pv)
		return out, nil
	}
	out.Runner = h.dr != nil
	if h.loadErr != nil {
		out.Err = h.loadErr.Error()
	}
	return out, h
}

var currentCase *streamCase // for the hang hook

// c05Case judges one faulted load.
func c05Case(sc *streamCase, idx int, st *Stats) *Violation {
	if journalFile != "" {
		scc := *sc
		journal(&Plan{Harness: 1, Property: "C05", World: World{Readers: sc.Readers, Host: HostSpec{Seed: sc.Seed}}, Extra: map[string]any{"case": scc, "index": idx}})
	}
	currentCase = sc
	defer func() { currentCase = nil }()
	valid := len(sc.Readers) > 0
	var verdicts []verdictT
	for i := range sc.Readers {
		v := verdict(sc.Readers[i].bytes())
		verdicts = append(verdicts, v)
		if !v.Valid {
			valid = false
		}
	}
	chunkings := [][]int{nil, {1}, {3, 1, 0, 64}, {7, 13}, {0, 0, 5, 0, 1, 512}, {64}, {2}, {1000}}
	ci := idx % len(chunkings)
	t0 := time.Now()
	out, h := loadCase(sc, chunkings[ci], idx%2)
	if ms := time.Since(t0).Milliseconds(); ms > 3000 && st != nil {
		st.inc("loads_slower_than_3s", 1)
		n := 0
		for i := range sc.Readers {
			n += len(sc.Readers[i].bytes())
		}
		st.sample(map[string]any{"slow_load_ms": ms, "kind": sc.Kind, "at": sc.At, "bytes": n, "chunking": chunkings[ci]})
		fmt.Fprintf(os.Stderr, "SLOW-LOAD %d ms kind=%s at=%d bytes=%d chunking=%v\n", ms, sc.Kind, sc.At, n, chunkings[ci])
	}
	if st != nil {
		st.inc("cases", 1)
		st.fault(sc.Kind)
		if ci != 0 {
			st.fault("short_reads")
		}
	}
	mk := func(clause, note string) *Violation {
		return &Violation{Clause: clause, OpIndex: idx, Expected: verdicts, Observed: out, Note: fmt.Sprintf("%s (fault %s at %d, chunking %v)", note, sc.Kind, sc.At, chunkings[ci])}
	}
	if out.Panic != "" {
		return mk("C05.panic", "NewDialogueRunner panicked")
	}
	if out.Runner == (out.Err != "") {
		return mk("C05.both-nil", "exactly one of (runner, error) must be non-nil")
	}
	if sc.ReadErr {
		if out.Err == "" {
			return mk("C05.read-error-swallowed", "the reader failed but a runner was returned")
		}
		return nil
	}
	if !valid && out.Err == "" {
		return mk("C05.invalid-accepted", "input with syntax errors (or mixed indentation, or empty) was loaded")
	}
	if out.Err == "" {
		// the verdict above shares the lexer with the loader; the mixed-indentation rule is checked from the bytes too
		for i := range sc.Readers {
			if mixed, line := mixedIndentInBody(sc.Readers[i].bytes()); mixed {
				return mk("C05.invalid-accepted", fmt.Sprintf("line %d of reader %d is indented with tabs AND spaces, yet the input was loaded", line, i))
			}
		}
	}
	if valid && validSeed(sc.Seed) && out.Err != "" {
		return mk("C05.valid-rejected", "syntactically valid input with a valid seed was refused")
	}
	// chunking never changes the outcome (checked on a subset)
	if idx%6 == 0 {
		cj := (ci + 1 + idx/6) % len(chunkings)
		out2, _ := loadCase(sc, chunkings[cj], (idx+1)%2)
		if out2.Panic != out.Panic || (out2.Err == "") != (out.Err == "") || out2.Runner != out.Runner {
			return &Violation{Clause: "C05.chunking", OpIndex: idx, Expected: out, Observed: out2, Note: fmt.Sprintf("outcome depends on how the reader delivers its bytes: %v vs %v", chunkings[ci], chunkings[cj])}
		}
		if st != nil {
			st.inc("chunking_pairs", 1)
		}
	}
	// a returned runner is usable: a few steps must not panic (scripts that could loop for ever are not stepped)
	if h != nil && h.dr != nil && len(sc.Readers) > 0 && !strings.Contains(string(sc.Readers[0].bytes()), "jump") {
		for k := 0; k < 3; k++ {
			r := h.Next(0)
			if r.Kind == rPanic {
				if strings.Contains(r.Err, "index out of range") && k > 0 {
					break // an empty option group was answered with choice 0: no in-range choice exists
				}
				return &Violation{Clause: "C05.panic", OpIndex: idx, Expected: verdicts, Observed: r, Note: fmt.Sprintf("the loaded runner panicked in Next call %d (fault %s at %d)", k, sc.Kind, sc.At)}
			}
			if r.Kind == rEnd || r.Kind == rError || r.Kind == rWaiting {
				break
			}
		}
		h.Close()
	}
	if st != nil {
		if !valid {
			st.inc("streams_invalid", 1)
		} else {
			st.inc("streams_valid", 1)
		}
	}
	return nil
}

func c05Base(base []byte, origin string, rng *splitmix, env *Env, samples int) (*Plan, *Violation) {
	idx := 0
	var plan *Plan
	var viol *Violation
	baseValid := verdict(base).Valid
	var recent []streamCase
	exh := faultedStreams(base, rng, 700, samples, func(sc streamCase) bool {
		idx++
		v := c05Case(&sc, idx, env.St)
		defer func() { recent = pushRecent(recent, sc) }()
		if len(sc.Readers) == 1 {
			// non-trivial: the fault changed the verdict of the stream
			if verdict(sc.Readers[0].bytes()).Valid != baseValid {
				env.St.distinct("nontrivial", hashStr(string(sc.Readers[0].bytes()), sc.Kind))
			}
		}
		if v != nil {
			viol = v
			scc := sc
			plan = &Plan{Harness: 1, Property: "C05", World: World{Readers: sc.Readers, Host: HostSpec{Seed: sc.Seed}}, Extra: map[string]any{"case": scc, "index": idx, "origin": origin, "prelude": append([]streamCase{}, recent...)}}
			return false
		}
		return true
	})
	if exh {
		env.St.inc("base_scripts_with_exhaustive_truncation_and_deletion", 1)
	} else {
		env.St.inc("base_scripts_strided", 1)
	}
	return plan, viol
}

func c05World(tp *Tape, env *Env) (*Plan, *Violation) {
	cfg := &GenCfg{
		MaxNodes: 2, MaxStmts: 4, MaxDepth: 2, MaxTotal: tp.Int(3, 12, "size"),
		WLine: 6, WOptions: 4, WIf: 4, WSet: 3, WDeclare: 1, WJump: 1, WJumpE: 1, WStop: 1, WCall: 1, WCommand: 2, WWait: 1,
		NVars: [3]int{1, 1, 1}, Probes: true, Visited: true, ExprDepth: 2, InlinePct: 30, TagPct: 25, CondPct: 30,
		NoDeclarePrelude: true, NoLongLines: true, NonASCII: tp.Bool("nonascii"), TrackingPct: 20,
		Handlers: []HandlerSpec{{Name: "c0", Shape: "raw_prefilled"}},
	}
	g := &gen{tp: tp, cfg: cfg}
	prog := g.program()
	layout := genLayout(tp)
	base := []byte(renderNodes(prog.Nodes, layout, 0))
	env.St.inc("base_scripts", 1)
	// an unmutated generated script is valid by construction: the independent verdict must agree,
	// otherwise the verdict could make the "invalid => error" clause vacuous
	sc := streamCase{Kind: "unmutated", Readers: oneReader(base), Seed: "a1"}
	if v := verdict(base); !v.Valid {
		return &Plan{Harness: 1, Property: "C05", Program: prog, World: World{Readers: sc.Readers, Host: HostSpec{Seed: "a1"}}, Extra: map[string]any{"case": sc, "index": 0}},
			&Violation{Clause: "C05.valid-rejected", OpIndex: 0, Observed: v, Note: "the lexer/parser reports syntax errors for a generated script that is valid by construction"}
	}
	if v := c05Case(&sc, 0, env.St); v != nil {
		return &Plan{Harness: 1, Property: "C05", Program: prog, World: World{Readers: sc.Readers, Host: HostSpec{Seed: "a1"}}, Extra: map[string]any{"case": sc, "index": 0}}, v
	}
	rng := &splitmix{s: tp.Uint64("streamseed")}
	samples := 48
	if env.Thorough {
		samples = 256
	}
	plan, v := c05Base(base, "generated", rng, env, samples)
	if plan != nil {
		plan.Program = prog
	}
	env.St.sample(map[string]any{"base_script": string(base), "faults": "every truncation offset, every single-byte deletion, sampled flips/insertions/line mutations/read errors/splits/seeds/random bytes"})
	if plan == nil {
		plan = &Plan{Harness: 1, Property: "C05", Program: prog}
	}
	return plan, v
}

// c05Fixed runs the repo's own fixtures (this shard's share) through the same fault enumeration.
func c05Fixed(env *Env) []*Plan {
	repo := os.Getenv("VERIF_REPO_DIR")
	if repo == "" {
		repo = "/repo"
	}
	var files []string
	for _, pat := range []string{"testdata/*.yarn", "internal/tree/testdata/*.yarn"} {
		m, _ := filepath.Glob(filepath.Join(repo, pat))
		files = append(files, m...)
	}
	sort.Strings(files)
	var out []*Plan
	for i, f := range files {
		if i%env.NShards != env.Shard {
			continue
		}
		b, err := os.ReadFile(f)
		if err != nil {
			continue
		}
		env.St.inc("fixture_scripts", 1)
		rng := &splitmix{s: mix64(env.VerifSeed, uint64(i))}
		max, samples := 120, 60
		if env.Thorough {
			max, samples = 700, 400
		}
		beginActivity("C05 fixture " + f)
		idx := 0
		baseValid := verdict(b).Valid
		var recent []streamCase
		faultedStreams(b, rng, max, samples, func(sc streamCase) bool {
			idx++
			beginActivity("C05 fixture " + f)
			v := c05Case(&sc, idx, env.St)
			defer func() { recent = pushRecent(recent, sc) }()
			if len(sc.Readers) == 1 && verdict(sc.Readers[0].bytes()).Valid != baseValid {
				env.St.distinct("nontrivial", hashStr(string(sc.Readers[0].bytes()), sc.Kind))
			}
			if v != nil {
				scc := sc
				out = append(out, &Plan{Harness: 1, Property: "C05", World: World{Readers: sc.Readers, Host: HostSpec{Seed: sc.Seed}},
					Extra: map[string]any{"case": scc, "index": idx, "origin": f, "prelude": append([]streamCase{}, recent...)}, Violation: v})
				return false
			}
			return true
		})
		endActivity()
	}
	return out
}

// pushRecent keeps the last few loads of a process (those a history-dependent failure would need).
func pushRecent(recent []streamCase, sc streamCase) []streamCase {
	recent = append(recent, sc)
	if len(recent) > 6 {
		recent = recent[len(recent)-6:]
	}
	return recent
}

func c05Replay(plan *Plan) *Violation {
	sc, ok := decodeExtra[streamCase](plan, "case")
	if !ok {
		return nil
	}
	idx, _ := decodeExtra[int](plan, "index")
	if f, ok := plan.Extra["index"].(float64); ok {
		idx = int(f)
	}
	if sc.Kind == "unmutated" {
		if v := verdict(sc.Readers[0].bytes()); !v.Valid {
			return &Violation{Clause: "C05.valid-rejected", OpIndex: 0, Observed: v}
		}
	}
	// the loads that came just before it in the same process: an outcome that depends on them needs them to replay
	if pre, ok := decodeExtra[[]streamCase](plan, "prelude"); ok {
		for i := range pre {
			c05Case(&pre[i], idx-len(pre)+i, nil)
		}
	}
	return c05Case(&sc, idx, nil)
}
