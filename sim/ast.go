package zz_verif_sim

// AST of the generated Yarn programs. The reference model interprets this AST
// (never the rendered text); the renderer turns it into script bytes.

import (
	"math"
	"strconv"
)

// Val is a Yarn value in the model: number, boolean or string.
type Val struct {
	K byte    `json:"k"` // 'n', 'b', 's'
	N float64 `json:"n,omitempty"`
	B bool    `json:"b,omitempty"`
	S string  `json:"s,omitempty"`
}

func numV(n float64) Val { return Val{K: 'n', N: n} }
func boolV(b bool) Val   { return Val{K: 'b', B: b} }
func strV(s string) Val  { return Val{K: 's', S: s} }

// canon returns a canonical comparable string of a value (NaNs unified, floats by bits).
func (v Val) canon() string {
	switch v.K {
	case 'n':
		if math.IsNaN(v.N) {
			return "n:NaN"
		}
		return "n:" + strconv.FormatUint(math.Float64bits(v.N), 16) + "(" + strconv.FormatFloat(v.N, 'g', -1, 64) + ")"
	case 'b':
		if v.B {
			return "b:true"
		}
		return "b:false"
	case 's':
		return "s:" + strconv.Quote(v.S)
	}
	return "?"
}

// dispNum is the display form of a number as far as the claimed properties fix
// it: integral values below 1e15 print as integers, other values between 1e-4
// and 1e6 print as their shortest round-trip decimal. Everything else is
// "not in question here" (ok=false): such a world is discarded, not judged.
func dispNum(n float64) (string, bool) {
	if math.IsNaN(n) || math.IsInf(n, 0) {
		return "", false
	}
	if n == math.Trunc(n) {
		if math.Abs(n) < 1e15 {
			return strconv.FormatInt(int64(n), 10), true
		}
		return "", false
	}
	a := math.Abs(n)
	if a >= 1e-4 && a < 1e6 {
		return strconv.FormatFloat(n, 'f', -1, 64), true
	}
	return "", false
}

func (v Val) display() (string, bool) {
	switch v.K {
	case 'n':
		return dispNum(v.N)
	case 'b':
		if v.B {
			return "True", true
		}
		return "False", true
	case 's':
		return v.S, true
	}
	return "", false
}

// Expr kinds.
const (
	eNum  = "num"
	eBool = "bool"
	eStr  = "str"
	eVar  = "var"
	eCall = "call"
	eNeg  = "neg"
	eNot  = "not"
	eBin  = "bin"
	eNull = "null"
)

// Expr is an expression. Binary operators are stored by canonical name:
// + - * / % < <= > >= == != and or xor.
type Expr struct {
	K     string  `json:"k"`
	N     float64 `json:"n,omitempty"`
	B     bool    `json:"b,omitempty"`
	S     string  `json:"s,omitempty"` // string literal, variable name, function name
	Op    string  `json:"op,omitempty"`
	A     []*Expr `json:"a,omitempty"`
	Spell int     `json:"spell,omitempty"` // which spelling of the operator the renderer uses
	Paren int     `json:"paren,omitempty"` // extra redundant parentheses
}

// Statement kinds.
const (
	sLine    = "line"
	sOptions = "options"
	sIf      = "if"
	sSet     = "set"
	sDeclare = "declare"
	sJump    = "jump"  // by name
	sJumpE   = "jumpe" // by expression
	sStop    = "stop"
	sCall    = "call"
	sCommand = "command"
	sWait    = "wait"
)

// Part is a piece of line text: literal text or an inline expression.
type Part struct {
	Text string `json:"t,omitempty"`
	E    *Expr  `json:"e,omitempty"`
}

// LineS is a line (also the header line of an option).
type LineS struct {
	Parts []Part   `json:"parts"`
	Cond  *Expr    `json:"cond,omitempty"` // options only
	Tags  []string `json:"tags,omitempty"`
}

// Option is one shortcut option.
type Option struct {
	Line *LineS  `json:"line"`
	Body []*Stmt `json:"body,omitempty"`
}

// Clause of an if statement; Cond==nil means else.
type Clause struct {
	Cond *Expr   `json:"cond,omitempty"`
	Body []*Stmt `json:"body,omitempty"`
}

// CmdArg is one argument of a generic command: a literal word or an expression.
type CmdArg struct {
	Word string `json:"w,omitempty"`
	E    *Expr  `json:"e,omitempty"`
}

// Stmt is a statement.
type Stmt struct {
	K       string    `json:"k"`
	Line    *LineS    `json:"line,omitempty"`
	Options []*Option `json:"options,omitempty"`
	Clauses []*Clause `json:"clauses,omitempty"`
	Var     string    `json:"var,omitempty"`
	Op      string    `json:"op,omitempty"` // = += -= *= /= %=
	E       *Expr     `json:"e,omitempty"`  // set/declare value, jump expression, call expression
	Target  string    `json:"target,omitempty"`
	Cmd     string    `json:"cmd,omitempty"`
	Args    []CmdArg  `json:"args,omitempty"`
	Spell   int       `json:"spell,omitempty"`
	AsType  string    `json:"as_type,omitempty"` // declare only: the optional `as number|bool|string` suffix
}

// Node is a dialogue node.
type Node struct {
	Title    string      `json:"title"`
	Tracking string      `json:"tracking,omitempty"` // "", "never", "always"
	Extra    [][2]string `json:"extra,omitempty"`    // extra headers
	TitlePos int         `json:"title_pos,omitempty"`
	Body     []*Stmt     `json:"body"`
}

// Program is a list of nodes; the start node is Nodes[0].
type Program struct {
	Nodes []*Node `json:"nodes"`
}

func (p *Program) find(title string) *Node {
	for _, n := range p.Nodes {
		if n.Title == title {
			return n
		}
	}
	return nil
}

func walkStmts(body []*Stmt, f func(*Stmt)) {
	for _, s := range body {
		f(s)
		for _, o := range s.Options {
			walkStmts(o.Body, f)
		}
		for _, c := range s.Clauses {
			walkStmts(c.Body, f)
		}
	}
}
