package zz_verif_sim

// C01 — dialogue flow refines the reference interpreter, for generated programs
// x all (or sampled) choice paths x reader distributions x layouts x completion
// polls of commands.

import (
	"fmt"
)

func c01GenCfg(tp *Tape, thorough bool) *GenCfg {
	c := &GenCfg{
		MaxNodes: 5, MaxStmts: 5, MaxDepth: 3,
		WLine: 10, WOptions: 6, WIf: 6, WSet: 4, WDeclare: 1, WJump: 2, WJumpE: 1, WStop: 1, WCall: 1, WCommand: 2,
		NVars: [3]int{2, 2, 1}, NJVars: 1, Probes: true, Visited: true, ExprDepth: 2,
		InlinePct: 30, TagPct: 20, CondPct: 35, TrackingPct: 15, NonASCII: true,
	}
	if thorough {
		c.MaxNodes, c.MaxStmts, c.MaxDepth, c.MaxTotal = 8, 7, 5, 70
	}
	// swarm: switch features off / change weights per world
	if tp.Chance(30, "sw.noopts") {
		c.WOptions = 0
	}
	if tp.Chance(30, "sw.noif") {
		c.WIf = 0
	}
	if tp.Chance(40, "sw.nojump") {
		c.WJump, c.WJumpE = 0, 0
	} else if tp.Chance(30, "sw.jumpy") {
		c.WJump, c.WJumpE = 6, 3
	}
	if tp.Chance(50, "sw.nostop") {
		c.WStop = 0
	}
	if tp.Chance(40, "sw.nocmd") {
		c.WCommand = 0
	}
	if tp.Chance(30, "sw.flowheavy") {
		c.WLine, c.WSet = 4, 1
		c.WOptions *= 2
		c.WIf *= 2
	}
	if tp.Chance(40, "sw.ascii") {
		c.NonASCII = false
	}
	c.NVars = [3]int{tp.Int(0, 3, "nnum"), tp.Int(0, 2, "nbool"), tp.Int(0, 2, "nstr")}
	return c
}

func c01World(tp *Tape, env *Env) (*Plan, *Violation) {
	cfg := c01GenCfg(tp, env.Thorough)
	if cfg.WCommand > 0 {
		cfg.Handlers = drawHandlers(tp, 3)
	}
	g := &gen{tp: tp, cfg: cfg}
	var prog *Program
	if tp.Chance(20, "hubworld") {
		cfg.WJump, cfg.WJumpE, cfg.WStop = 0, 0, 0
		prog = g.hubProgram()
		env.St.probe("world.hub_loop")
	} else {
		prog = g.program()
	}
	if tp.Chance(12, "deepchain") {
		g.addDeepChain(prog, []string{"none", "stop", "jump"})
		env.St.probe("program.block_chain_6_to_12_deep")
	}
	layout := genLayout(tp)
	w := World{Readers: distribute(tp, prog, layout, 3)}
	w.Host = HostSpec{Storer: []string{"default", "mem", "rec", "cells"}[tp.Int(0, 3, "storer")], Probes: true, Seed: "s1", Handlers: cfg.Handlers}
	if len(cfg.Handlers) > 0 {
		w.Host.Scheds = drawScheds(tp, true)
	}
	salt := uint64(tp.Int(0, 7, "junksalt"))
	maxOps := 40
	if env.Thorough {
		maxOps = 64
	}
	if g.outlier == "rounds" {
		maxOps = 260
	}
	if g.bigRounds {
		maxOps = 2000
	}
	if g.outlier != "" {
		env.St.probe("world.size_outlier")
	}
	plan := &Plan{Harness: 1, Property: "C01", Program: prog, Layout: &layout, World: w}
	maxLeaves := 24
	if env.Thorough {
		maxLeaves = 64
	}

	// enumerate the choice paths with the model
	type pathT struct{ choices []int }
	var leaves [][]Op
	var leafChoices [][]int
	exhaustive := true
	work := [][]int{nil}
	modelRuns := 0
	for len(work) > 0 {
		pre := work[len(work)-1]
		work = work[:len(work)-1]
		modelRuns++
		if modelRuns > 400 || len(leaves) >= maxLeaves {
			exhaustive = false
			break
		}
		m := newModel(prog, cfg.Handlers, w.Host.Scheds)
		ops, branch := buildPathOps(m, pre, salt, maxOps)
		if m.discard != "" {
			env.St.inc("discarded", 1)
			env.St.inc("discard."+m.discard, 1)
			return nil, nil
		}
		if branch > 0 {
			for i := branch - 1; i >= 0; i-- {
				work = append(work, append(append([]int{}, pre...), i))
			}
			continue
		}
		leaves = append(leaves, ops)
		leafChoices = append(leafChoices, pre)
	}
	if !exhaustive {
		// sample 8 paths with drawn choices instead
		leaves, leafChoices = nil, nil
		for k := 0; k < 8; k++ {
			var pre []int
			for {
				m := newModel(prog, cfg.Handlers, w.Host.Scheds)
				ops, branch := buildPathOps(m, pre, salt, maxOps)
				if m.discard != "" {
					env.St.inc("discarded", 1)
					return nil, nil
				}
				if branch == 0 {
					leaves = append(leaves, ops)
					leafChoices = append(leafChoices, pre)
					break
				}
				pre = append(pre, tp.Int(0, branch-1, "choice"))
			}
		}
		env.St.inc("worlds.sampled_paths", 1)
	} else {
		env.St.inc("worlds.exhaustive_paths", 1)
	}

	sh := shapeOf(prog)
	nontrivial := sh.maxNest >= 2 || sh.jumpNested || sh.optsEndBody
	if sh.maxNest >= 3 {
		env.St.probe("program.nesting_depth_3")
	}
	if sh.jumpNested {
		env.St.probe("program.jump_inside_nested_body")
	}
	if sh.optsEndBody {
		env.St.probe("program.options_end_a_body")
	}
	if len(w.Readers) > 1 {
		env.St.probe("world.nodes_over_several_readers")
	}
	for _, ops := range leaves {
		polled := false
		for _, o := range ops {
			if o.K == "next" && o.Exp != nil && o.Exp.Kind == rWaiting {
				polled = true
			}
		}
		if polled {
			env.St.probe("world.command_polled_while_pending")
			break
		}
	}
	progHash := hashJSON(prog)
	bubble := needsBubble(&w, nil, prog)
	for li, ops := range leaves {
		env.St.inc("paths", 1)
		env.St.inc("ops", int64(len(ops)))
		if nontrivial {
			env.St.distinct("nontrivial", hashStr(fmt.Sprint(progHash), fmt.Sprint(leafChoices[li])))
		}
		plan.Ops = ops
		plan.Extra = map[string]any{"choices": leafChoices[li], "exhaustive_paths": exhaustive}
		journal(plan)
		if v := c01Exec(plan, bubble, env.St); v != nil {
			return plan, v
		}
	}
	if len(w.Readers) > 1 {
		env.St.fault("reader_split")
	}
	for _, r := range w.Readers {
		if len(r.Chunks) > 0 {
			env.St.fault("short_reads")
			break
		}
	}
	env.St.sample(map[string]any{"script": readerTexts(&w), "first_path": summarizeOps(leaves[0])})
	return plan, nil
}

func readerTexts(w *World) []string {
	var out []string
	for _, r := range w.Readers {
		out = append(out, string(r.bytes()))
	}
	return out
}

func summarizeOps(ops []Op) []string {
	var out []string
	for _, o := range ops {
		s := o.K
		if o.K == "next" {
			s += fmt.Sprintf("(%d)", o.Arg)
			if o.Exp != nil {
				s += " -> " + o.Exp.Kind
				if o.Exp.Text != "" {
					s += " " + o.Exp.Text
				}
				if len(o.Exp.Opts) > 0 {
					s += fmt.Sprintf(" %d options", len(o.Exp.Opts))
				}
			}
		} else if o.K == "release" {
			s += fmt.Sprintf("(#%d err=%v)", o.Inv, o.Err)
		}
		out = append(out, s)
	}
	if len(out) > 24 {
		out = append(out[:24], "...")
	}
	return out
}

// c01Exec runs plan.Ops against the real runner and compares every response
// with the model's expectation.
func c01Exec(plan *Plan, bubble bool, st *Stats) *Violation {
	first := true
	hk := &execHooks{bubble: bubble, callsClause: "C01.calls"}
	hk.afterOp = func(i int, op *Op, got *Resp, h *Host, tr *Trace) *Violation {
		if got == nil || op.Exp == nil {
			return nil
		}
		if got.Kind == rPanic {
			return &Violation{Clause: "C01.kind", OpIndex: i, Expected: op.Exp, Observed: got, Note: "Next panicked on a well-formed, fault-free script"}
		}
		if d := respDiff(*op.Exp, *got); d != "" {
			clause := "C01." + d
			if first && d == "node" {
				clause = "C01.start"
			}
			return &Violation{Clause: clause, OpIndex: i, Expected: op.Exp, Observed: got}
		}
		if got.Kind == rLine || got.Kind == rOptions {
			first = false
		}
		return nil
	}
	_, v, _ := runWorld(&plan.World, plan.Ops, hk, st)
	if v != nil && (v.Clause == "load.panic" || v.Clause == "load.error") {
		// a generated script is valid by construction: the flow property cannot be judged
		// on a script that does not load; C05 owns that (valid scripts are accepted)
		if st != nil {
			st.inc("assumption_breaks.C05", 1)
		}
		return &Violation{Clause: "C01.load", OpIndex: -1, Observed: v.Observed, Note: "well-formed generated script was not loaded"}
	}
	if v != nil && v.Clause == "deadlock" {
		return &Violation{Clause: "C01.kind", OpIndex: -1, Observed: v.Observed, Note: "Next blocked"}
	}
	return v
}

func c01Replay(plan *Plan) *Violation {
	return c01Exec(plan, needsBubble(&plan.World, plan.Ops, plan.Program), nil)
}
