package zz_verif_sim

// Stage two of minimisation (DESIGN §3.2): greedy passes on the materialised plan, after rapid has
// shrunk the choice tape. Every candidate is a complete plan, is executed against the real code by
// the property's own replay function, and is kept only if THE SAME CLAUSE fails again. Only
// transformations that keep a plan legal are tried:
//   - whole-buffer delivery of every reader (chunking must not matter);
//   - the same program re-rendered under a plainer layout / in one reader - tried only when
//     re-rendering the program under the recorded layout reproduces the recorded bytes exactly, i.e.
//     the plan's text is known to be nothing but a rendering of its program;
//   - deleting host ops from model-free (dynamic) op lists, in which every op list is a legal
//     schedule (choices are folded into the range on display, restores of empty slots are no-ops);
//   - dropping all but the failing experiment of a C07 plan and trimming its continuations;
//   - deleting lines from a C14 parser history (every history is legal).
// Plans whose expectations were computed by the reference model keep their op list (only the ops
// after the failing one are cut, see addViolation): deleting an op there would need a new model run.

import (
	"encoding/json"
	"fmt"
	"time"
)

type minReport struct {
	Tried       int      `json:"candidates_tried"`
	Accepted    []string `json:"accepted"`
	OpsBefore   int      `json:"ops_before"`
	OpsAfter    int      `json:"ops_after"`
	BytesBefore int      `json:"script_bytes_before"`
	BytesAfter  int      `json:"script_bytes_after"`
	WallMs      int64    `json:"wall_ms"`
	Note        string   `json:"note,omitempty"`
}

func clonePlan(p *Plan) *Plan {
	b, err := json.Marshal(p)
	if err != nil {
		return nil
	}
	var c Plan
	if json.Unmarshal(b, &c) != nil {
		return nil
	}
	return &c
}

func planOps(p *Plan) int {
	n := len(p.Ops)
	if post, ok := decodeExtra[[]Op](p, "post"); ok {
		n += len(post)
	}
	if exps, ok := decodeExtra[[]c07Exp](p, "experiments"); ok {
		for _, e := range exps {
			n += len(e.X) + len(e.X2)
		}
	}
	if lines, ok := decodeExtra[[]string](p, "lines"); ok {
		n += len(lines)
	}
	return n
}

func planBytes(p *Plan) int {
	n := 0
	for i := range p.World.Readers {
		n += len(p.World.Readers[i].bytes())
	}
	return n
}

// rerenderCuts finds the node ranges of the readers if (and only if) every reader's bytes are exactly
// the rendering of a run of the program's nodes under the recorded layout.
func rerenderCuts(p *Plan) ([]int, bool) {
	if p.Program == nil || p.Layout == nil || len(p.World.Readers) == 0 {
		return nil, false
	}
	for i := range p.World.Readers {
		if p.World.Readers[i].ErrAt != 0 {
			return nil, false
		}
	}
	n := len(p.Program.Nodes)
	var rec func(r, from int, cuts []int) ([]int, bool)
	rec = func(r, from int, cuts []int) ([]int, bool) {
		if r == len(p.World.Readers) {
			if from == n {
				return cuts, true
			}
			return nil, false
		}
		want := string(p.World.Readers[r].bytes())
		for to := from + 1; to <= n; to++ {
			if renderNodes(p.Program.Nodes[from:to], *p.Layout, uint64(r)) == want {
				if c, ok := rec(r+1, to, append(append([]int{}, cuts...), to)); ok {
					return c, true
				}
			}
		}
		return nil, false
	}
	return rec(0, 0, []int{0})
}

func withLayout(p *Plan, l Layout, cuts []int) *Plan {
	c := clonePlan(p)
	if c == nil {
		return nil
	}
	c.Layout = &l
	old := c.World.Readers
	c.World.Readers = nil
	for r := 0; r+1 < len(cuts); r++ {
		rs := ReaderSpec{Text: renderNodes(c.Program.Nodes[cuts[r]:cuts[r+1]], l, uint64(r))}
		if r < len(old) {
			rs.Chunks, rs.EOF, rs.Before = old[r].Chunks, old[r].EOF, old[r].Before
		}
		c.World.Readers = append(c.World.Readers, rs)
	}
	return c
}

// ddmin-like deletion on a list of n items: del(i, j) must return a candidate without items [i, j).
func deleteChunks(n int, try func(i, j int) bool) {
	for size := n / 2; size >= 1; size /= 2 {
		for i := 0; i+size <= n; {
			if try(i, i+size) {
				n -= size
			} else {
				i += size
			}
		}
	}
}

func minimisePlan(plan *Plan, v *Violation, replay func(*Plan) *Violation, budget time.Duration) (*Plan, *Violation, *minReport) {
	start := time.Now()
	rep := &minReport{OpsBefore: planOps(plan), BytesBefore: planBytes(plan)}
	target := v.Clause
	cur, curV := plan, v
	savedStats := gStats
	gStats = newStats() // measures taken while minimising are not evidence
	defer func() { gStats = savedStats }()
	expired := func() bool { return time.Since(start) > budget }
	attempt := func(label string, c *Plan) bool {
		if c == nil || expired() {
			return false
		}
		rep.Tried++
		var got *Violation
		func() {
			defer func() {
				if p := recover(); p != nil {
					got = nil
				}
			}()
			beginActivity(plan.Property + " minimising")
			got = replay(c)
			endActivity()
		}()
		if got == nil || got.Clause != target {
			return false
		}
		cur, curV = c, got
		if len(rep.Accepted) < 40 {
			rep.Accepted = append(rep.Accepted, label)
		}
		return true
	}
	// the plan as a replay sees it (through JSON) must fail the same way; otherwise leave it alone
	base := clonePlan(plan)
	if base == nil {
		rep.Note = "plan is not serialisable; not minimised"
		return plan, v, rep
	}
	if !attempt("json round trip", base) {
		rep.Note = "the plan does not fail the same clause when re-executed in this process (the clause needs a process history, real timing or a fresh process); not minimised"
		rep.Accepted = nil
		rep.OpsAfter, rep.BytesAfter = rep.OpsBefore, rep.BytesBefore
		rep.WallMs = time.Since(start).Milliseconds()
		return plan, v, rep
	}
	rep.Accepted = nil

	// 1. delivery
	for i := range cur.World.Readers {
		if len(cur.World.Readers[i].Chunks) > 0 || cur.World.Readers[i].EOF != 0 {
			c := clonePlan(cur)
			if c != nil {
				c.World.Readers[i].Chunks, c.World.Readers[i].EOF = nil, 0
				attempt(fmt.Sprintf("reader %d delivered in one read", i), c)
			}
		}
	}

	// 2. op lists in which every list is a legal schedule
	switch cur.Property {
	case "C09", "C11", "C12":
		deleteChunks(len(cur.Ops), func(i, j int) bool {
			c := clonePlan(cur)
			if c == nil {
				return false
			}
			c.Ops = append(append([]Op{}, c.Ops[:i]...), c.Ops[j:]...)
			return attempt(fmt.Sprintf("ops %d..%d deleted", i, j-1), c)
		})
		if post, ok := decodeExtra[[]Op](cur, "post"); ok && len(post) > 1 {
			deleteChunks(len(post), func(i, j int) bool {
				c := clonePlan(cur)
				if c == nil {
					return false
				}
				pp, _ := decodeExtra[[]Op](c, "post")
				c.Extra["post"] = append(append([]Op{}, pp[:i]...), pp[j:]...)
				return attempt(fmt.Sprintf("post-end ops %d..%d deleted", i, j-1), c)
			})
		}
	case "C07":
		if exps, ok := decodeExtra[[]c07Exp](cur, "experiments"); ok && len(exps) > 1 {
			for k := range exps {
				c := clonePlan(cur)
				if c == nil {
					break
				}
				c.Extra["experiments"] = []c07Exp{exps[k]}
				if attempt(fmt.Sprintf("experiment %d alone", k), c) {
					break
				}
			}
		}
		if exps, ok := decodeExtra[[]c07Exp](cur, "experiments"); ok && len(exps) == 1 {
			// the continuation after the restore: trailing ops first, then any op
			for _, which := range []string{"x2", "x"} {
				e := exps[0]
				xs := e.X
				if which == "x2" {
					xs = e.X2
				}
				deleteChunks(len(xs), func(i, j int) bool {
					c := clonePlan(cur)
					if c == nil {
						return false
					}
					ee, _ := decodeExtra[[]c07Exp](c, "experiments")
					if len(ee) != 1 {
						return false
					}
					if which == "x2" {
						ee[0].X2 = append(append([]Op{}, ee[0].X2[:i]...), ee[0].X2[j:]...)
					} else {
						ee[0].X = append(append([]Op{}, ee[0].X[:i]...), ee[0].X[j:]...)
					}
					c.Extra["experiments"] = ee
					if attempt(fmt.Sprintf("continuation %s ops %d..%d deleted", which, i, j-1), c) {
						exps, _ = decodeExtra[[]c07Exp](cur, "experiments")
						return true
					}
					return false
				})
				exps, _ = decodeExtra[[]c07Exp](cur, "experiments")
				if len(exps) != 1 {
					break
				}
			}
		}
	case "C14":
		if lines, ok := decodeExtra[[]string](cur, "lines"); ok && len(lines) > 1 {
			deleteChunks(len(lines), func(i, j int) bool {
				c := clonePlan(cur)
				if c == nil {
					return false
				}
				ll, _ := decodeExtra[[]string](c, "lines")
				c.Extra["lines"] = append(append([]string{}, ll[:i]...), ll[j:]...)
				return attempt(fmt.Sprintf("history lines %d..%d deleted", i, j-1), c)
			})
		}
	}

	// 3. layout and reader distribution, where the text is provably a rendering of the program
	if cuts, ok := rerenderCuts(cur); ok {
		plain := Layout{Indent: "    ", IndentIf: true, FinalNL: true}
		if !(len(cuts) > 2 && attempt("one reader, plain layout", withLayout(cur, plain, []int{0, len(cur.Program.Nodes)}))) {
			if !attempt("plain layout", withLayout(cur, plain, cuts)) {
				// one layout feature at a time
				steps := []struct {
					name string
					f    func(l *Layout)
				}{
					{"no decoration lines", func(l *Layout) { l.Deco, l.DecoPct, l.TrailPct, l.DeepDeco = 0, 0, 0, false }},
					{"LF line ends", func(l *Layout) { l.CRLF = false }},
					{"no extra spaces in commands", func(l *Layout) { l.CmdSpaces = false }},
					{"four-space indentation", func(l *Layout) { l.Indent, l.MixTabs = "    ", false }},
					{"plain header spacing", func(l *Layout) { l.HdrSep = 0 }},
					{"final newline", func(l *Layout) { l.FinalNL = true }},
					{"indented if bodies", func(l *Layout) { l.IndentIf = true }},
				}
				for _, s := range steps {
					cc, ok := rerenderCuts(cur)
					if !ok {
						break
					}
					l := *cur.Layout
					s.f(&l)
					if l == *cur.Layout {
						continue
					}
					attempt(s.name, withLayout(cur, l, cc))
				}
				if cc, ok := rerenderCuts(cur); ok && len(cc) > 2 {
					attempt("one reader", withLayout(cur, *cur.Layout, []int{0, len(cur.Program.Nodes)}))
				}
			}
		}
	}
	rep.OpsAfter, rep.BytesAfter = planOps(cur), planBytes(cur)
	rep.WallMs = time.Since(start).Milliseconds()
	if expired() {
		rep.Note = "stopped by the time budget"
	}
	return cur, curV, rep
}
