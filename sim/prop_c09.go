package zz_verif_sim

// C09 — seeded determinism under ambient perturbation. Real-vs-real: the same
// world (scripts, seed, choices) is executed several times in one process -
// plain, after unrelated seeded runners drew numbers, after draws from the
// global math/rand sources, inside a bubble whose clock is elsewhere, with a
// neighbour runner stepped in the middle of its callbacks - and, in the "procs"
// mode, in fresh child processes under other GOMAXPROCS / GOGC settings. The
// canonical traces must be identical; rendered random values must lie in their
// ranges.

import (
	"bytes"
	"fmt"
	"math"
	"math/rand"
	randv2 "math/rand/v2"
	"os"
	"os/exec"
	"strconv"
	"strings"
	"time"
)

func c09Plan(tp *Tape, env *Env) *Plan {
	cfg := &GenCfg{
		MaxNodes: 3, MaxStmts: 5, MaxDepth: 2, MaxTotal: 24,
		WLine: 10, WOptions: 4, WIf: 4, WSet: 4, WJump: 2, WJumpE: 1, WStop: 0, WCall: 1,
		NVars: [3]int{2, 1, 1}, NJVars: 1, Probes: true, Visited: true, Random: true, ExprDepth: 2,
		InlinePct: 35, CondPct: 40, VarLines: tp.Bool("varlines"), Builtins: true, NoStringSelfGrowth: true,
	}
	withFaults := tp.Chance(25, "withfaults")
	if withFaults {
		cfg.Faults = tp.Int(1, 2, "nfaults") // failing calls: the error texts are part of the trace
		cfg.WFault = 2
	}
	if tp.Chance(40, "withcommands") {
		// commands whose arguments are expressions that draw random numbers (a raw handler that completes at once)
		cfg.Handlers = []HandlerSpec{{Name: "c0", Shape: "raw_prefilled", Params: []string{"float64", "float64", "float64"}}}
		cfg.WCommand, cfg.ArgExprPct = 3, 80
	}
	g := &gen{tp: tp, cfg: cfg}
	prog := g.program()
	g.ensureYieldingCycles(prog)
	layout := genLayout(tp)
	w := World{Readers: distribute(tp, prog, layout, 2)}
	seedAlphabet := "0123456789abcdefghijklmnopqrstuvwxyz"
	ln := tp.Int(1, 20, "seedlen")
	seed := ""
	for i := 0; i < ln; i++ {
		seed += string(seedAlphabet[tp.Int(0, 35, "seedchar")])
	}
	w.Host = HostSpec{Storer: []string{"rec", "mem"}[tp.Int(0, 1, "storer")], Probes: true, Seed: seed, Overrides: tp.Chance(10, "hostoverrides"), Handlers: cfg.Handlers}
	ops := drawDynOps(tp, tp.Int(3, 24, "nops"), g.vars, 8, false)
	if tp.Chance(30, "withrestores") && len(ops) > 3 {
		// a snapshot and one or two restores on the way: what is drawn afterwards is still a function of the seed
		at := tp.Int(0, len(ops)/2, "snapat")
		ops = append(ops[:at], append([]Op{{K: "snapshot", Slot: 0}}, ops[at:]...)...)
		for n := tp.Int(1, 2, "nrestores"); n > 0; n-- {
			rt := tp.Int(at+1, len(ops), "restoreat")
			ops = append(ops[:rt], append([]Op{{K: "restore", Slot: 0}}, ops[rt:]...)...)
		}
	}
	return &Plan{Harness: 1, Property: "C09", Program: prog, Layout: &layout, World: w, Ops: ops,
		Extra: map[string]any{"with_faults": withFaults, "neighbours": tp.Int(1, 3, "neighbours"), "global_draws": tp.Int(1, 50, "globaldraws"), "clock_offset_s": tp.Int(1, 1000000, "clockoffset"), "burst_every": tp.Int(1, 5, "burstevery")}}
}

// c09BetweenOps, when set, runs between any two ops of the traced runner (execution P6).
var c09BetweenOps func()

// c09Trace runs the plan once and returns the canonical trace.
func c09Trace(plan *Plan, bubble bool, midCall func(), st *Stats) (string, *Violation) {
	var sb strings.Builder
	var viol *Violation
	body := func() {
		d, err := newDyn(&plan.World, bubble)
		if err != nil {
			sb.WriteString("load failed: " + err.Error())
			return
		}
		if midCall != nil {
			n := 0
			every, _ := decodeExtra[int](plan, "burst_every")
			if f, ok := plan.Extra["burst_every"].(float64); ok {
				every = int(f)
			}
			if every < 1 {
				every = 1
			}
			root := curGID()
			hook := func() {
				if settling || curGID() != root {
					return
				}
				n++
				if n%every == 0 {
					midCall()
				}
			}
			d.h.onCall = func(kind, name string) { hook() }
			if d.h.rec != nil {
				d.h.rec.onRead = func(string) { hook() }
			}
		}
		for i := range plan.Ops {
			if c09BetweenOps != nil && i > 0 {
				c09BetweenOps()
			}
			ev0 := d.h.nEvents()
			r := d.apply(&plan.Ops[i])
			if evs := d.h.eventsFrom(ev0); len(evs) > 0 && plan.Ops[i].K == "next" {
				// what the host saw during the call: function and command invocations with their argument values
				var seen []string
				for _, e := range evs {
					if strings.HasPrefix(e, "fn ") || strings.HasPrefix(e, "cmd ") || strings.HasPrefix(e, "inv ") {
						seen = append(seen, e)
					}
				}
				fmt.Fprintf(&sb, "  host saw %v\n", normEvents(seen))
			}
			if r != nil {
				fmt.Fprintf(&sb, "%d %s|%s|%s|%v|%s", i, r.Kind, r.Node, r.Text, r.Tags, r.Err)
				for _, o := range r.Opts {
					fmt.Fprintf(&sb, "|%s/%v/%v", o.Text, o.Tags, o.Disabled)
				}
				sb.WriteString("\n")
				if v := c09Ranges(i, r); v != nil && viol == nil && !(v.Note != "" && r.Kind == rError && planHasFaults(plan)) {
					viol = v
				}
				if r.Kind == rPanic {
					break
				}
			}
			store := fmtStrMap(d.h.StoreCanon())
			fmt.Fprintf(&sb, "  store %s\n", store)
			if len(store) > 1<<16 {
				// a script that doubles a string every round: what it does next is the same in every
				// execution, but nothing is learnt from gigabytes of it
				sb.WriteString("  cut: the variables have outgrown 64 KB\n")
				break
			}
		}
		d.h.Close()
		drain(bubble)
	}
	if bubble {
		inBubble(body)
	} else {
		body()
	}
	return sb.String(), viol
}

// c09Ranges checks the tagged random lines.
func c09Ranges(i int, r *Resp) *Violation {
	if r.Kind == rError {
		// every random built-in in these worlds is called with bounds that define a non-empty range
		for _, fn := range []string{"dice", "random_range", "random"} {
			if strings.Contains(r.Err, "function "+fn+" failed") {
				return &Violation{Clause: "C09.range", OpIndex: i, Observed: r.Err, Note: fn + " refused bounds that define a non-empty range: it must return a value in that range"}
			}
		}
		return nil
	}
	if r.Kind != rLine {
		return nil
	}
	f := strings.Fields(r.Text)
	bad := func(note string) *Violation {
		return &Violation{Clause: "C09.range", OpIndex: i, Observed: r.Text, Note: note}
	}
	switch {
	case len(f) == 3 && f[0] == "RD":
		n, _ := strconv.Atoi(f[1])
		v, err := strconv.ParseFloat(f[2], 64)
		if err != nil || v != math.Trunc(v) || v < 1 || v > float64(n) {
			return bad("dice(n) must be an integer in [1,n]")
		}
	case len(f) == 4 && f[0] == "RR":
		lo, _ := strconv.Atoi(f[1])
		hi, _ := strconv.Atoi(f[2])
		v, err := strconv.ParseFloat(f[3], 64)
		if err != nil || v != math.Trunc(v) || v < float64(lo) || v > float64(hi) {
			return bad("random_range(a,b) must be an integer in [a,b]")
		}
	case len(f) == 2 && f[0] == "RF":
		v, err := strconv.ParseFloat(f[1], 64)
		if err != nil || v < 0 || v >= 1 {
			return bad("random() must be a number in [0,1)")
		}
	}
	return nil
}

func planHasFaults(plan *Plan) bool {
	b, _ := plan.Extra["with_faults"].(bool)
	return b
}

func c09World(tp *Tape, env *Env) (*Plan, *Violation) {
	plan := c09Plan(tp, env)
	env.St.sample(map[string]any{"script": readerTexts(&plan.World), "seed": plan.World.Host.Seed, "ops": describeDynOps(plan.Ops)})
	journal(plan)
	return plan, c09Exec(plan, env.St)
}

func extraInt(plan *Plan, key string, def int) int {
	switch x := plan.Extra[key].(type) {
	case int:
		return x
	case float64:
		return int(x)
	}
	return def
}

func c09Exec(plan *Plan, st *Stats) *Violation {
	base, v := c09Trace(plan, false, nil, st)
	if v != nil {
		return v
	}
	cmp := func(clause, what string, other string) *Violation {
		if other == base {
			return nil
		}
		a, b := strings.Split(base, "\n"), strings.Split(other, "\n")
		for i := 0; i < len(a) && i < len(b); i++ {
			if a[i] != b[i] {
				return &Violation{Clause: clause, OpIndex: i, Expected: a[i], Observed: b[i], Note: "same scripts, seed and choices, " + what}
			}
		}
		return &Violation{Clause: clause, OpIndex: -1, Expected: len(a), Observed: len(b), Note: "trace lengths differ, " + what}
	}
	// P1: again
	t, _ := c09Trace(plan, false, nil, nil)
	if v := cmp("C09.repeat", "second execution in the same process", t); v != nil {
		return v
	}
	// P2: after unrelated seeded runners drew random numbers
	nb := extraInt(plan, "neighbours", 1)
	for k := 0; k < nb; k++ {
		other := *plan
		other.World.Host.Seed = fmt.Sprintf("n%d", k)
		c09Trace(&other, false, nil, nil)
	}
	t, _ = c09Trace(plan, false, nil, nil)
	if v := cmp("C09.after-neighbours", "after unrelated runners with other seeds ran", t); v != nil {
		return v
	}
	// P3: after draws from the global sources
	for k := extraInt(plan, "global_draws", 1); k > 0; k-- {
		rand.Int63()
		randv2.Uint64()
	}
	t, _ = c09Trace(plan, false, nil, nil)
	if v := cmp("C09.global-rand", "after draws from the global math/rand sources", t); v != nil {
		return v
	}
	// P4: on another clock (a bubble starts at a fixed fake epoch; jump further)
	off := extraInt(plan, "clock_offset_s", 1)
	var t4 string
	inBubble(func() {
		time.Sleep(time.Duration(off) * time.Second)
		t4, _ = c09Trace(plan, false, nil, nil)
	})
	if v := cmp("C09.clock", "under a different wall clock", t4); v != nil {
		return v
	}
	// P5: a neighbour runner stepped in the middle of this runner's callbacks
	neighbour := *plan
	neighbour.World.Host.Seed = "zz9"
	nd, err := newDyn(&neighbour.World, false)
	if err == nil {
		k := 0
		t, _ = c09Trace(plan, false, func() {
			if k > 0 && k%len(neighbour.Ops) == 0 {
				// the neighbour has run its schedule: a fresh one takes over. (One neighbour stepped
				// without bound doubles a string of a looping script until the process is out of memory.)
				nd.h.Close()
				if nd2, err := newDyn(&neighbour.World, false); err == nil {
					nd = nd2
				}
			}
			op := neighbour.Ops[k%len(neighbour.Ops)]
			k++
			nd.apply(&op)
			if len(fmtStrMap(nd.h.StoreCanon())) > 1<<16 {
				k += len(neighbour.Ops) - k%len(neighbour.Ops) // replaced at the next callback
			}
		}, nil)
		nd.h.Close()
		if v := cmp("C09.mid-call", "with another seeded runner stepped during its callbacks", t); v != nil {
			return v
		}
		if st != nil && k > 0 {
			st.fault("neighbour_mid_call")
		}
	}
	// P6: between any two ops of this runner another seeded runner is created, takes a step and is left alive -
	// also right after this runner reported its end and before it is restored
	{
		var others []*dynRunner
		k := 0
		unseeded := neighbour
		unseeded.World.Host.Seed = "" // a runner without a seed takes one from wherever the library finds entropy
		c09BetweenOps = func() {
			nw := &neighbour.World
			if k%2 == 0 {
				nw = &unseeded.World // the first one right after the runner under test was created
			}
			if nd, err := newDyn(nw, false); err == nil {
				nd.apply(&neighbour.Ops[k%len(neighbour.Ops)])
				k++
				others = append(others, nd)
			}
		}
		t, _ = c09Trace(plan, false, nil, nil)
		c09BetweenOps = nil
		for _, o := range others {
			o.h.Close()
		}
		if v := cmp("C09.between", "with another seeded runner created and stepped between any two of its steps", t); v != nil {
			return v
		}
		if st != nil {
			st.fault("runner_created_between_steps")
		}
	}
	if st != nil {
		st.inc("cases", 1)
		st.inc("executions", int64(7+nb))
		st.fault("repeat")
		st.fault("after_neighbours")
		st.fault("global_rand_draws")
		st.fault("clock_offset")
		if planHasFaults(plan) && strings.Contains(base, " error|") {
			st.probe("trace_with_error_texts")
		}
		for _, o := range plan.Ops {
			if o.K == "restore" {
				st.probe("seeded_run_with_a_restore")
				st.fault("crash_restore")
				break
			}
		}
		nrand := strings.Count(base, "RD ") + strings.Count(base, "RR ") + strings.Count(base, "RF ")
		st.inc("random_lines_range_checked", int64(nrand))
		if nrand >= 2 {
			st.distinct("nontrivial", hashStr(base))
		}
	}
	return nil
}

// c09Procs: fresh child processes under other runtime settings must produce the same trace.
func c09Procs(env *Env, worlds int, addViolation func(*Plan, *Violation)) {
	bin := os.Getenv("VERIF_BIN")
	if bin == "" {
		bin = os.Args[0]
	}
	dir, err := os.MkdirTemp("", "c09procs")
	if err != nil {
		return
	}
	defer os.RemoveAll(dir)
	flagSet("rapid.checks", fmt.Sprint(worlds))
	runRapid(env, "C09procs", func(tp *Tape) (*Plan, *Violation) {
		plan := c09Plan(tp, env)
		base, v := c09Trace(plan, false, nil, nil)
		if v != nil {
			return plan, v
		}
		path := fmt.Sprintf("%s/plan-%d.json", dir, env.St.Counters["cases"])
		b, _ := jsonMarshal(plan)
		os.WriteFile(path, b, 0o644)
		for _, cfg := range [][2]string{{"1", "100"}, {"4", "25"}, {"16", "off"}} {
			cmd := exec.Command(bin, "-test.run", "^TestSim$", "-sim.mode", "child", "-sim.replay", path)
			cmd.Env = append(os.Environ(), "GOMAXPROCS="+cfg[0], "GOGC="+cfg[1])
			var out bytes.Buffer
			cmd.Stdout = &out
			cmd.Run()
			got := ""
			for _, line := range strings.Split(out.String(), "\n") {
				if strings.HasPrefix(line, "TRACEHASH ") {
					got = strings.TrimPrefix(line, "TRACEHASH ")
				}
			}
			want := fmt.Sprintf("%016x", hashStr(base))
			if got != want {
				return plan, &Violation{Clause: "C09.process", OpIndex: -1, Expected: want, Observed: got, Note: "trace in a fresh process with GOMAXPROCS=" + cfg[0] + " GOGC=" + cfg[1] + " differs from this process's"}
			}
			env.St.fault("fresh_process")
		}
		env.St.inc("cases", 1)
		env.St.distinct("nontrivial", hashStr(base))
		return plan, nil
	}, addViolation)
}
