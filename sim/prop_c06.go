package zz_verif_sim

// C06 — script- and seam-level faults never panic: fault sites in the script,
// failing / value-less / unknown host functions and commands, variables removed
// or corrupted by the host. The model says where the first fault is; the real
// runner must answer with an error there (or, where the properties leave the
// outcome open, with anything but a panic) and stay usable afterwards.

import (
	"fmt"
	"time"
)

func c06World(tp *Tape, env *Env) (*Plan, *Violation) {
	cfg := &GenCfg{
		MaxNodes: 3, MaxStmts: 5, MaxDepth: 3, MaxTotal: 30,
		WLine: 8, WOptions: 4, WIf: 4, WSet: 5, WDeclare: 1, WJump: 1, WJumpE: 1, WStop: 1, WCall: 2, WCommand: 3, WFault: 3,
		NVars: [3]int{2, 1, 1}, NJVars: 1, Probes: true, Visited: true, ExprDepth: 2,
		InlinePct: 45, TagPct: 10, CondPct: 40, NonASCII: tp.Bool("nonascii"), Faults: tp.Int(1, 2, "nfaults"),
	}
	cfg.Handlers = drawHandlers(tp, 2)
	if len(cfg.Handlers) > 0 && tp.Chance(12, "oddchan") {
		// a handler whose result is a send-only channel or a channel of a concrete error type
		cfg.Handlers[0].Shape = []string{"conv_sendchan", "conv_errtypechan"}[tp.Int(0, 1, "oddchankind")]
		env.St.probe("handler_with_an_unusual_channel_result")
	}
	g := &gen{tp: tp, cfg: cfg}
	prog := g.program()
	g.ensureYieldingCycles(prog)
	layout := genLayout(tp)
	w := World{Readers: distribute(tp, prog, layout, 2)}
	w.Host = HostSpec{Storer: []string{"rec", "mem"}[tp.Int(0, 1, "storer")], Probes: true, Seed: "s1", Handlers: cfg.Handlers, FailedRegs: tp.Chance(25, "failedregs")}
	if len(cfg.Handlers) > 0 {
		w.Host.Scheds = drawScheds(tp, true)
	}
	m := newModel(prog, cfg.Handlers, w.Host.Scheds)
	dc := &DriveCfg{MaxOps: 30, Vars: g.vars}
	if tp.Chance(35, "hostfaults") {
		dc.WritePct, dc.OtherPct, dc.ClearPct, dc.BadStr = 15, 40, 15, 60
	}
	ops, choices := driveTape(tp, m, dc, env.St)
	if m.discard != "" {
		env.St.inc("discarded", 1)
		return nil, nil
	}
	plan := &Plan{Harness: 1, Property: "C06", Program: prog, Layout: &layout, World: w, Ops: ops,
		Extra: map[string]any{"choices": choices, "after": tp.Int(0, 7, "aftersalt")}}
	env.St.inc("cases", 1)
	env.St.inc("ops", int64(len(ops)))
	if m.faulted && len(ops) > 0 && ops[len(ops)-1].Exp != nil {
		last := ops[len(ops)-1].Exp
		env.St.fault("script_fault." + faultClass(last.Err))
		env.St.distinct("nontrivial", hashStr(fmt.Sprint(hashJSON(prog)), fmt.Sprint(hashJSON(ops))))
		if last.Kind == rAny {
			env.St.probe("fault_with_open_outcome")
		} else {
			env.St.probe("fault_requiring_error")
		}
		env.St.sample(map[string]any{"script": readerTexts(&w), "ops": summarizeOps(ops), "fault": last.Err})
	} else {
		env.St.inc("worlds_without_reached_fault", 1)
	}
	journal(plan)
	return plan, c06Exec(plan, env.St)
}

func faultClass(what string) string {
	for i, c := range what {
		if c == ' ' && i > 8 {
			// keep the first two words
			for j := i + 1; j < len(what); j++ {
				if what[j] == ' ' {
					return what[:j]
				}
			}
			return what
		}
	}
	return what
}

func c06Exec(plan *Plan, st *Stats) *Violation {
	cut := false
	bubble := needsBubble(&plan.World, plan.Ops, plan.Program)
	hk := &execHooks{bubble: bubble}
	var viol *Violation
	var lastResp *Resp
	hk.afterOp = func(i int, op *Op, got *Resp, h *Host, tr *Trace) *Violation {
		if got == nil {
			return nil
		}
		lastResp = got
		if got.Kind == rPanic {
			return &Violation{Clause: "C06.panic", OpIndex: i, Expected: op.Exp, Observed: got, Note: "Next panicked"}
		}
		if cut || op.Exp == nil {
			return nil
		}
		switch op.Exp.Kind {
		case rError:
			if got.Kind != rError {
				// flow may already have diverged for another reason: only a first divergence right here counts
				return &Violation{Clause: "C06.missing-error", OpIndex: i, Expected: op.Exp, Observed: got, Note: "fault: " + op.Exp.Err}
			}
			cut = true
		case rAny:
			cut = true
		default:
			if respDiff(*op.Exp, *got) != "" {
				cut = true // C01's / C10's business
				if st != nil {
					st.inc("assumption_breaks.C01", 1)
				}
			}
		}
		return nil
	}
	salt := 0
	if v, ok := plan.Extra["after"]; ok {
		switch x := v.(type) {
		case int:
			salt = x
		case float64:
			salt = int(x)
		}
	}
	body := func() {
		h, pv := newHost(&plan.World)
		if pv != nil || h.loadErr != nil {
			if st != nil {
				st.inc("assumption_breaks.C05", 1)
			}
			return
		}
		_, viol = runOps(h, plan.Ops, hk, st)
		if viol == nil {
			// usable afterwards: further calls with in-range choices return an element, the end or an error
			waitingStreak := 0
			hasWaits := false // consecutive <<wait>> statements would legitimately answer "waiting" several times in a row
			if plan.Program != nil {
				for _, n := range plan.Program.Nodes {
					walkStmts(n.Body, func(s *Stmt) {
						if s.K == sWait {
							hasWaits = true
						}
					})
				}
			}
			for k := 0; k < 8; k++ {
				// no options on display: the argument is not a choice, any value has to do
				arg := junkArgs[(salt+k)%len(junkArgs)]
				if lastResp != nil && lastResp.Kind == rOptions && len(lastResp.Opts) > 0 {
					arg = (salt + k) % len(lastResp.Opts)
				}
				// nothing may stay pending: every invocation is released and the clock runs on
				for j := 0; j < h.nInvs(); j++ {
					h.Release(j, false)
				}
				settle(bubble)
				if bubble {
					sleepInBubble(100000 * time.Second)
				}
				invsBefore := h.nInvs()
				r := h.Next(arg)
				settle(bubble)
				if h.releaseAuto() {
					settle(bubble)
				}
				lastResp = &r
				if r.Kind == rPanic {
					viol = &Violation{Clause: "C06.unusable", OpIndex: len(plan.Ops) + k, Observed: r, Note: "Next panicked after an earlier error"}
					break
				}
				if r.Kind == rWaiting && h.nInvs() == invsBefore && !hasWaits {
					// waiting although no handler was started by this call: legitimate once (a <<wait>> just
					// dispatched), never twice in a row with 10^5 simulated seconds in between
					waitingStreak++
					if waitingStreak >= 3 {
						viol = &Violation{Clause: "C06.unusable", OpIndex: len(plan.Ops) + k, Observed: r, Note: "after an earlier error the runner keeps answering 'waiting for command completion' although nothing is pending"}
						break
					}
				} else {
					waitingStreak = 0
				}
			}
		}
		h.Close()
		drain(bubble)
	}
	if bubble {
		if dl, msg := inBubble(body); dl && viol == nil {
			viol = &Violation{Clause: "C06.hang", OpIndex: -1, Observed: msg, Note: "Next blocked"}
		}
	} else {
		body()
	}
	return viol
}
