package zz_verif_sim

// C06 — script- and seam-level faults never panic: fault sites in the script,
// failing / value-less / unknown host functions and commands, variables removed
// or corrupted by the host. The model says where the first fault is; the real
// runner must answer with an error there (or, where the properties leave the
// outcome open, with anything but a panic) and stay usable afterwards.

import (
	"fmt"
	"strings"
	"time"
)

// c06Markup: valid scripts whose lines carry markup of every kind, property values with awkward characters
// (a percent sign, a trailing backslash, quotes, nothing at all) and replacement markers whose branch is
// selected by a value that changes every round. No model: the only claim is that Next never panics.
func c06Markup(tp *Tape, env *Env) (*Plan, *Violation) {
	exotic := []string{
		`[plural value={$n} one="%\\" other="% cats" /]`, `[plural value={$n} one="C:%\\\\" two="2" few="f" many="m" other="x" /]`,
		`[select value={$s} a="%" b="\\" c="" /]`, `[ordinal value={$n} one="%st\\" two="%nd" few="%rd" other="%th" /]`,
		`[plural value={$n} one="100%" other="%%" /]`, `[a x="\\"]t[/a]`, `[a x="%" y=% z=]u[/a]`, `[plural value={$n} one="1" /]`,
		`[ordinal value={$n} one="a" two="b" other="%" /]`, `[select value={$n} 1="one" 2="two" /]`, `[plural value={$s} other="%" /]`,
		`[plural value={$n} one="%"]open[/plural]`, `[select value={$s} a="%\\"]o[/]`, `[nomarkup]%\\[/nomarkup]`, `[b]%[/b]\\`,
		// values at the edge of what a number in markup can be, written in the script or held by the host as a string
		`[ordinal value={$t} one="%st" two="%nd" few="%rd" other="%th" /]`, `[plural value={$t} one="% thing" other="% things" /]`,
		`[select value={$t} 1="one" a="A" other="%" /]`, `[ordinal value=9999999999999999999 one="%st" two="%nd" few="%rd" other="%th" /]`,
		`[plural value=18446744073709551613 one="1" other="%" /]`, `[ordinal value=-7 one="a" two="b" few="c" other="%" /]`,
		`[plural value=9223372036854775808 one="1" two="2" few="f" many="m" other="%" /]`, `[a n={$t} m=-{$t} k={$t}.5]v[/a]`,
		`[ordinal value={$n} one="%st" two="%nd" few="%rd" other="%th" /]`, `[ordinal value=12345678901234567891 one="%" two="%" few="%" other="%" /]`,
	}
	// what a host may hold in a string variable that a script shows inside a marker
	awkward := []string{"3", "22", "9999999999999999999", "18446744073709551613", "12345678901234567891", "9223372036854775807", "9223372036854775808",
		"-9223372036854775808", "-9223372036854775809", "-1", "-13", "-0", "00000000000000000000000011", "99999999999999999999999999999999999999999", "1e309", "1e5", "0x10", "1_000",
		"+5", ".5", "5.", "1.5", "-1.5", "NaN", "Inf", "", " ", "٣", "１２", "1 2", "4294967296", "2147483648", "340282366920938463463374607431768211456"}
	var sb strings.Builder
	sb.WriteString("title: Start\n---\n<<declare $n = 0>>\n<<declare $s = \"a\">>\n<<declare $t = \"" + awkward[tp.Int(0, 4, "tinit")] + "\">>\n<<jump Hub>>\n===\ntitle: Hub\n---\n")
	nl := tp.Int(2, 6, "nlines")
	for i := 0; i < nl; i++ {
		if tp.Chance(60, "exotic") {
			fmt.Fprintf(&sb, "X%d %s tail\n", i, exotic[tp.Int(0, len(exotic)-1, "exotickind")])
		} else {
			l, _ := genMarkupLine(tp, fmt.Sprintf("M%d", i), true)
			sb.WriteString(l + " {$n}\n")
		}
	}
	if tp.Bool("optiongroup") {
		fmt.Fprintf(&sb, "-> O1 %s\n-> O2 plain\n", exotic[tp.Int(0, len(exotic)-1, "exoticopt")])
	}
	vals := []string{"1", "2", "3", "11", "13", "23", "0", "1.5", "-1", "1000000", "9007199254740993", "9223372036854775807", "-13", "4294967297"}
	svals := []string{"b", "c", "zz", "", "a"}
	sb.WriteString("<<set $n = " + vals[tp.Int(0, len(vals)-1, "nval")] + " + $n * 10>>\n<<set $s = \"" + svals[tp.Int(0, len(svals)-1, "sval")] + "\">>\n")
	sb.WriteString("<<if $n < 100000>>\n    <<jump Hub>>\n<<endif>>\n===\n")
	// the host rewrites $t (a string of its own) between calls
	var tvals []string
	for i, n := 0, tp.Int(0, 8, "ntvals"); i < n; i++ {
		tvals = append(tvals, awkward[tp.Int(0, len(awkward)-1, "tval")])
	}
	w := World{Readers: []ReaderSpec{{Text: sb.String()}}, Host: HostSpec{Storer: "mem", Seed: "s1"}}
	plan := &Plan{Harness: 1, Property: "C06", World: w, Extra: map[string]any{"markup": true, "tvals": tvals}}
	env.St.sample(map[string]any{"script": sb.String()})
	journal(plan)
	return plan, c06MarkupExec(plan, env.St)
}

func c06MarkupExec(plan *Plan, st *Stats) *Violation {
	h, pv := newHost(&plan.World)
	if pv != nil || h.loadErr != nil {
		if st != nil {
			st.inc("markup_scripts_not_loaded", 1)
		}
		return nil
	}
	defer h.Close()
	errs := 0
	tvals, _ := decodeExtra[[]string](plan, "tvals")
	for i := 0; i < 40; i++ {
		if i > 0 && i <= len(tvals) && h.st != nil {
			hostWrite(h.st, "t", strV(tvals[i-1]))
			if st != nil {
				st.fault("host_string_awkward_number_in_marker")
			}
		}
		r := h.Next(0)
		if r.Kind == rPanic {
			return &Violation{Clause: "C06.panic", OpIndex: i, Observed: r, Note: "Next panicked while showing a line or an option with markup"}
		}
		if r.Kind == rError {
			errs++
		}
		if r.Kind == rEnd {
			break
		}
	}
	if st != nil {
		st.inc("cases", 1)
		st.probe("markup_world_run_without_a_model")
		if errs > 0 {
			st.fault("script_fault.markup error")
		}
	}
	return nil
}

func c06World(tp *Tape, env *Env) (*Plan, *Violation) {
	if tp.Chance(10, "markupworld") {
		return c06Markup(tp, env)
	}
	cfg := &GenCfg{
		MaxNodes: 3, MaxStmts: 5, MaxDepth: 3, MaxTotal: 30,
		WLine: 8, WOptions: 4, WIf: 4, WSet: 5, WDeclare: 1, WJump: 1, WJumpE: 1, WStop: 1, WCall: 2, WCommand: 3, WFault: 3,
		NVars: [3]int{2, 1, 1}, NJVars: 1, Probes: true, Visited: true, ExprDepth: 2,
		InlinePct: 45, TagPct: 10, CondPct: 40, NonASCII: tp.Bool("nonascii"), Faults: tp.Int(1, 2, "nfaults"),
	}
	cfg.Handlers = drawHandlers(tp, 2)
	if tp.Chance(30, "hostfnwrites") {
		// host functions that write, retype or clear variables from inside the evaluation of a statement
		cfg.HostFnWrites = true
		cfg.WCall += 3
	}
	if len(cfg.Handlers) > 0 && tp.Chance(12, "oddchan") {
		// a handler whose result is a send-only channel or a channel of a concrete error type
		cfg.Handlers[0].Shape = []string{"conv_sendchan", "conv_errtypechan"}[tp.Int(0, 1, "oddchankind")]
		env.St.probe("handler_with_an_unusual_channel_result")
	}
	g := &gen{tp: tp, cfg: cfg}
	prog := g.program()
	g.ensureYieldingCycles(prog)
	layout := genLayout(tp)
	w := World{Readers: distribute(tp, prog, layout, 2)}
	w.Host = HostSpec{Storer: []string{"rec", "mem", "cells"}[tp.Int(0, 2, "storer")], Probes: true, Seed: "s1", Handlers: cfg.Handlers, FailedRegs: tp.Chance(25, "failedregs")}
	if len(cfg.Handlers) > 0 {
		w.Host.Scheds = drawScheds(tp, true)
	}
	m := newModel(prog, cfg.Handlers, w.Host.Scheds)
	dc := &DriveCfg{MaxOps: 30, Vars: g.vars}
	if tp.Chance(35, "hostfaults") {
		dc.WritePct, dc.OtherPct, dc.ClearPct, dc.BadStr = 15, 40, 15, 60
	}
	ops, choices := driveTape(tp, m, dc, env.St)
	if m.discard != "" {
		env.St.inc("discarded", 1)
		return nil, nil
	}
	plan := &Plan{Harness: 1, Property: "C06", Program: prog, Layout: &layout, World: w, Ops: ops,
		Extra: map[string]any{"choices": choices, "after": tp.Int(0, 7, "aftersalt")}}
	env.St.inc("cases", 1)
	env.St.inc("ops", int64(len(ops)))
	if m.faulted && len(ops) > 0 && ops[len(ops)-1].Exp != nil {
		last := ops[len(ops)-1].Exp
		env.St.fault("script_fault." + faultClass(last.Err))
		env.St.distinct("nontrivial", hashStr(fmt.Sprint(hashJSON(prog)), fmt.Sprint(hashJSON(ops))))
		if last.Kind == rAny {
			env.St.probe("fault_with_open_outcome")
		} else {
			env.St.probe("fault_requiring_error")
		}
		env.St.sample(map[string]any{"script": readerTexts(&w), "ops": summarizeOps(ops), "fault": last.Err})
	} else {
		env.St.inc("worlds_without_reached_fault", 1)
	}
	journal(plan)
	return plan, c06Exec(plan, env.St)
}

func faultClass(what string) string {
	for i, c := range what {
		if c == ' ' && i > 8 {
			// keep the first two words
			for j := i + 1; j < len(what); j++ {
				if what[j] == ' ' {
					return what[:j]
				}
			}
			return what
		}
	}
	return what
}

func c06Exec(plan *Plan, st *Stats) *Violation {
	cut := false
	bubble := needsBubble(&plan.World, plan.Ops, plan.Program)
	hk := &execHooks{bubble: bubble}
	var viol *Violation
	var lastResp *Resp
	hk.afterOp = func(i int, op *Op, got *Resp, h *Host, tr *Trace) *Violation {
		if got == nil {
			return nil
		}
		lastResp = got
		if got.Kind == rPanic {
			return &Violation{Clause: "C06.panic", OpIndex: i, Expected: op.Exp, Observed: got, Note: "Next panicked"}
		}
		if cut || op.Exp == nil {
			return nil
		}
		switch op.Exp.Kind {
		case rError:
			if got.Kind != rError {
				// flow may already have diverged for another reason: only a first divergence right here counts
				return &Violation{Clause: "C06.missing-error", OpIndex: i, Expected: op.Exp, Observed: got, Note: "fault: " + op.Exp.Err}
			}
			cut = true
		case rAny:
			cut = true
		default:
			if respDiff(*op.Exp, *got) != "" {
				cut = true // C01's / C10's business
				if st != nil {
					st.inc("assumption_breaks.C01", 1)
				}
			}
		}
		return nil
	}
	salt := 0
	if v, ok := plan.Extra["after"]; ok {
		switch x := v.(type) {
		case int:
			salt = x
		case float64:
			salt = int(x)
		}
	}
	body := func() {
		h, pv := newHost(&plan.World)
		if pv != nil || h.loadErr != nil {
			if st != nil {
				st.inc("assumption_breaks.C05", 1)
			}
			return
		}
		_, viol = runOps(h, plan.Ops, hk, st)
		if viol == nil {
			// usable afterwards: further calls with in-range choices return an element, the end or an error
			waitingStreak := 0
			hasWaits := false // consecutive <<wait>> statements would legitimately answer "waiting" several times in a row
			if plan.Program != nil {
				for _, n := range plan.Program.Nodes {
					walkStmts(n.Body, func(s *Stmt) {
						if s.K == sWait {
							hasWaits = true
						}
					})
				}
			}
			for k := 0; k < 8; k++ {
				// no options on display: the argument is not a choice, any value has to do
				arg := junkArgs[(salt+k)%len(junkArgs)]
				if lastResp != nil && lastResp.Kind == rOptions && len(lastResp.Opts) > 0 {
					arg = (salt + k) % len(lastResp.Opts)
				}
				// nothing may stay pending: every invocation is released and the clock runs on
				for j := 0; j < h.nInvs(); j++ {
					h.Release(j, false)
				}
				settle(bubble)
				if bubble {
					sleepInBubble(100000 * time.Second)
				}
				invsBefore := h.nInvs()
				r := h.Next(arg)
				settle(bubble)
				if h.releaseAuto() {
					settle(bubble)
				}
				lastResp = &r
				if r.Kind == rPanic {
					viol = &Violation{Clause: "C06.unusable", OpIndex: len(plan.Ops) + k, Observed: r, Note: "Next panicked after an earlier error"}
					break
				}
				if r.Kind == rWaiting && h.nInvs() == invsBefore && !hasWaits {
					// waiting although no handler was started by this call: legitimate once (a <<wait>> just
					// dispatched), never twice in a row with 10^5 simulated seconds in between
					waitingStreak++
					if waitingStreak >= 3 {
						viol = &Violation{Clause: "C06.unusable", OpIndex: len(plan.Ops) + k, Observed: r, Note: "after an earlier error the runner keeps answering 'waiting for command completion' although nothing is pending"}
						break
					}
				} else {
					waitingStreak = 0
				}
			}
		}
		h.Close()
		drain(bubble)
	}
	if bubble {
		if dl, msg := inBubble(body); dl && viol == nil {
			viol = &Violation{Clause: "C06.hang", OpIndex: -1, Observed: msg, Note: "Next blocked"}
		}
	} else {
		body()
	}
	return viol
}
