package zz_verif_sim

// The simulated host world around one real runner: faulty readers, a recording
// storer ("disk"), probe functions, gated command handlers. Everything the real
// runner calls back into is owned here, so the plan decides when anything
// completes and the harness sees every side effect.

import (
	"encoding/base64"
	"encoding/json"
	"errors"
	"fmt"
	"io"
	"math"
	"reflect"
	"regexp"
	"sort"
	"strings"
	"sync"

	"github.com/remieven/ysgo"
	"github.com/remieven/ysgo/markup"
	"github.com/remieven/ysgo/variable"
)

// ---------- readers ----------

type ReaderSpec struct {
	Text   string `json:"text,omitempty"`
	B64    string `json:"b64,omitempty"` // used instead of Text when the bytes are not valid UTF-8
	Chunks []int  `json:"chunks,omitempty"`
	EOF    int    `json:"eof,omitempty"`    // 0: (n,nil) then (0,EOF); 1: last chunk comes with EOF
	ErrAt  int    `json:"err_at,omitempty"` // >0: fail with an error once ErrAt-1 bytes were delivered
	// Before: the reader can seek (a file, a strings.Reader, a section of an archive) and was handed over positioned
	// AFTER these bytes, which the host had consumed or skipped itself: they are not part of the script
	Before string `json:"before,omitempty"`
}

func (rs *ReaderSpec) bytes() []byte {
	if rs.B64 != "" {
		b, _ := base64.StdEncoding.DecodeString(rs.B64)
		return b
	}
	return []byte(rs.Text)
}

func readerSpecOf(b []byte) ReaderSpec {
	if isPlain(b) {
		return ReaderSpec{Text: string(b)}
	}
	return ReaderSpec{B64: base64.StdEncoding.EncodeToString(b)}
}

func isPlain(b []byte) bool {
	s := string(b)
	for _, r := range s {
		if r == 0xFFFD || (r < 32 && r != '\n' && r != '\r' && r != '\t') {
			return false
		}
	}
	return len(b) > 0
}

var errInjectedRead = errors.New("injected read error")

type faultReader struct {
	data   []byte
	pos    int
	spec   *ReaderSpec
	ci     int
	reads  int
	zeroes int
	failed bool
}

func newFaultReader(spec *ReaderSpec) *faultReader {
	return &faultReader{data: spec.bytes(), spec: spec}
}

// seekingReader is a faultReader over content that has something before the position it is handed over at;
// it can seek like an *os.File. Reading on from the current position yields the script and nothing else.
type seekingReader struct {
	*faultReader
	before int
}

func (r *seekingReader) Seek(offset int64, whence int) (int64, error) {
	var abs int64
	switch whence {
	case io.SeekStart:
		abs = offset
	case io.SeekCurrent:
		abs = int64(r.pos) + offset
	case io.SeekEnd:
		abs = int64(len(r.data)) + offset
	default:
		return 0, errors.New("seek: invalid whence")
	}
	if abs < 0 {
		return 0, errors.New("seek: negative position")
	}
	r.pos = int(abs)
	if gStats != nil && int(abs) < r.before {
		gStats.inc("seek_before_the_position_handed_over", 1)
	}
	return abs, nil
}

// readerFor builds the io.Reader of a spec: one that can seek when the spec says something lies before it.
func readerFor(spec *ReaderSpec) (io.Reader, *faultReader) {
	fr := newFaultReader(spec)
	if spec.Before == "" {
		return fr, fr
	}
	fr.data = append([]byte(spec.Before), fr.data...)
	fr.pos = len(spec.Before)
	if gStats != nil {
		gStats.fault("seekable_reader_handed_over_at_an_offset")
	}
	return &seekingReader{faultReader: fr, before: len(spec.Before)}, fr
}

func (r *faultReader) Read(p []byte) (int, error) {
	r.reads++
	if r.spec.ErrAt > 0 && r.pos >= r.spec.ErrAt-1 {
		r.failed = true
		return 0, errInjectedRead
	}
	if r.pos >= len(r.data) {
		return 0, io.EOF
	}
	n := len(p)
	if len(r.spec.Chunks) > 0 {
		c := r.spec.Chunks[r.ci%len(r.spec.Chunks)]
		r.ci++
		if c < n {
			n = c
		}
	}
	if n == 0 {
		r.zeroes++
		if r.zeroes > 3 { // io.ReadAll tolerates empty reads but a reader must make progress eventually
			n = 1
			r.zeroes = 0
		} else {
			return 0, nil
		}
	}
	if n > len(r.data)-r.pos {
		n = len(r.data) - r.pos
	}
	if r.spec.ErrAt > 0 && r.pos+n > r.spec.ErrAt-1 {
		n = r.spec.ErrAt - 1 - r.pos
	}
	copy(p, r.data[r.pos:r.pos+n])
	r.pos += n
	if r.pos >= len(r.data) && r.spec.EOF == 1 && r.spec.ErrAt == 0 {
		return n, io.EOF
	}
	return n, nil
}

// ---------- recording storer ----------

// recStorer is a variable.Storer owned by the simulator: one map, one value per
// name, every call logged.
type recStorer struct {
	// cells: when non-nil the storer keeps ONE variable.Value per name and updates it in place on a write of
	// the same type; GetValue hands out that very cell and GetValues struct copies that share its pointers - a legal
	// Storer (a host that binds variables to UI fields does this). Whoever keeps what it got from such a storer
	// without copying it deeply sees it change.
	cells  map[string]*variable.Value
	vals   map[string]Val
	h      *Host
	reads  int
	writes int
	onRead func(name string) // preemption point for interleaving worlds
}

func newRecStorer(h *Host) *recStorer { return &recStorer{vals: map[string]Val{}, h: h} }

func toYarn(v Val) *variable.Value {
	switch v.K {
	case 'n':
		return variable.NewNumber(v.N)
	case 'b':
		return variable.NewBoolean(v.B)
	}
	return variable.NewString(v.S)
}

func fromYarn(v *variable.Value) (Val, bool) {
	if v == nil {
		return Val{}, false
	}
	cnt := 0
	var out Val
	if v.Number != nil {
		cnt++
		out = numV(*v.Number)
	}
	if v.Boolean != nil {
		cnt++
		out = boolV(*v.Boolean)
	}
	if v.String != nil {
		cnt++
		out = strV(*v.String)
	}
	return out, cnt == 1
}

func (s *recStorer) GetValue(name string) (*variable.Value, bool) {
	s.reads++
	if s.onRead != nil {
		s.onRead(name)
	}
	v, ok := s.vals[name]
	if !ok {
		return nil, false
	}
	if s.cells != nil {
		return s.cells[name], true
	}
	return toYarn(v), true
}

func (s *recStorer) GetValues() map[string]variable.Value {
	out := make(map[string]variable.Value, len(s.vals))
	for k, v := range s.vals {
		if s.cells != nil {
			out[k] = *s.cells[k]
			continue
		}
		out[k] = *toYarn(v)
	}
	return out
}

// setCell keeps the in-place cell of a name in step with vals.
func (s *recStorer) setCell(name string, v Val) {
	if s.cells == nil {
		return
	}
	c := s.cells[name]
	switch {
	case c != nil && v.K == 'n' && c.Number != nil:
		*c.Number = v.N
	case c != nil && v.K == 'b' && c.Boolean != nil:
		*c.Boolean = v.B
	case c != nil && v.K == 's' && c.String != nil:
		*c.String = v.S
	default:
		s.cells[name] = toYarn(v)
	}
}

func (s *recStorer) Contains(name string) bool { _, ok := s.vals[name]; return ok }

func (s *recStorer) SetNumberValue(name string, v float64) {
	s.writes++
	s.vals[name] = numV(v)
	s.setCell(name, numV(v))
	s.h.event("store " + name + "=" + numV(v).canon())
}

func (s *recStorer) SetBooleanValue(name string, v bool) {
	s.writes++
	s.vals[name] = boolV(v)
	s.setCell(name, boolV(v))
	s.h.event("store " + name + "=" + boolV(v).canon())
}

func (s *recStorer) SetStringValue(name string, v string) {
	s.writes++
	s.vals[name] = strV(v)
	s.setCell(name, strV(v))
	s.h.event("store " + name + "=" + strV(v).canon())
}

func (s *recStorer) Clear() {
	s.writes++
	s.vals = map[string]Val{}
	if s.cells != nil {
		s.cells = map[string]*variable.Value{}
	}
	s.h.event("store clear")
}

// ---------- host ----------

type HostSpec struct {
	Storer   string         `json:"storer"` // "default" (runner-owned), "mem" (host-held InMemoryStorer), "rec"
	Prefill  map[string]Val `json:"prefill,omitempty"`
	Handlers []HandlerSpec  `json:"handlers,omitempty"`
	Scheds   []Sched        `json:"scheds,omitempty"`
	Probes   bool           `json:"probes,omitempty"`
	// Overrides: the host registers its own functions under the names of built-ins (visited, visited_count,
	// round, string): what a host registered stays registered, whatever the runner does later
	Overrides bool `json:"overrides,omitempty"`
	// FailedRegs: the host attempts registrations the library refuses (unsupported signatures) - for a new name,
	// for the name of a built-in, for a command; a refused registration changes nothing
	FailedRegs bool `json:"failed_regs,omitempty"`
	// Reentrant: a handler that the runner calls synchronously (raw commands, converted handlers returning a
	// channel) registers one more command and one more function on its runner while it runs
	Reentrant bool `json:"reentrant,omitempty"`
	// Scribble: once it has taken note of an element, the host writes all over it (text, tags, attribute fields,
	// property maps): the element was handed over, it is the host's. Nothing of that may reach another element.
	Scribble bool   `json:"scribble,omitempty"`
	Seed     string `json:"seed"`
}

type World struct {
	Readers []ReaderSpec `json:"readers"`
	Host    HostSpec     `json:"host"`
}

// Inv is a command invocation as the host's handlers saw it.
type Inv struct {
	Index    int
	Name     string
	Args     []string
	Sched    Sched
	gate     chan error // handler-body gate (conv_none, conv_error, raw_unbuffered)
	ch       chan error // completion channel owned by the handler (raw_buffered, conv_chan, conv_rochan)
	released bool
	auto     bool // completes without a host decision, but only once the dispatching call has returned
}

type Host struct {
	gen          map[string]int // generation of the handler registered under each command name
	staleHandler string         // a replaced handler was invoked
	hostPanicked bool           // the host function pboom panicked during the current call
	mu           sync.Mutex
	spec         HostSpec
	dr           *ysgo.DialogueRunner
	st           variable.Storer
	kept         []keptEl
	rec          *recStorer
	events       []string
	invs         []*Inv
	done         chan struct{}
	readers      []*faultReader
	onCall       func(kind, name string) // preemption point (probe / handler entry)
	loadErr      error
	// freeRunning: handlers that complete on their own goroutine really do so whenever the Go scheduler lets
	// them (stress modes). Otherwise (the default) such a handler is held at its gate until the call that
	// dispatched it has returned: whether a freshly started goroutine gets to run before the runner looks at
	// its channel is a choice of the Go scheduler (preemption), and every choice the simulator does not make
	// itself breaks replay.
	freeRunning bool
}

func (h *Host) event(s string) {
	h.mu.Lock()
	h.events = append(h.events, s)
	h.mu.Unlock()
}

func (h *Host) nEvents() int {
	h.mu.Lock()
	defer h.mu.Unlock()
	return len(h.events)
}

func (h *Host) eventsFrom(i int) []string {
	h.mu.Lock()
	defer h.mu.Unlock()
	return append([]string(nil), h.events[i:]...)
}

func (h *Host) nInvs() int {
	h.mu.Lock()
	defer h.mu.Unlock()
	return len(h.invs)
}

func (h *Host) inv(i int) *Inv {
	h.mu.Lock()
	defer h.mu.Unlock()
	if i < 0 || i >= len(h.invs) {
		return nil
	}
	return h.invs[i]
}

// newHost creates the real runner through the faulty readers. A panic during
// creation is returned as panicVal.
func newHost(w *World) (h *Host, panicVal any) {
	h = &Host{spec: w.Host, done: make(chan struct{})}
	switch w.Host.Storer {
	case "mem":
		h.st = variable.NewInMemoryStorer()
	case "rec":
		h.rec = newRecStorer(h)
		h.st = h.rec
	case "cells":
		h.rec = newRecStorer(h)
		h.rec.cells = map[string]*variable.Value{}
		h.st = h.rec
		if gStats != nil {
			gStats.fault("storer_that_updates_its_cells_in_place")
		}
	}
	if h.st != nil {
		names := make([]string, 0, len(w.Host.Prefill))
		for k := range w.Host.Prefill {
			names = append(names, k)
		}
		sort.Strings(names)
		for _, k := range names {
			hostWrite(h.st, k, w.Host.Prefill[k])
		}
		h.events = h.events[:0]
	}
	readers := make([]io.Reader, len(w.Readers))
	for i := range w.Readers {
		rd, fr := readerFor(&w.Readers[i])
		h.readers = append(h.readers, fr)
		readers[i] = rd
	}
	func() {
		defer func() {
			if p := recover(); p != nil {
				panicVal = p
			}
		}()
		var st variable.Storer
		if h.st != nil {
			st = h.st
		}
		h.dr, h.loadErr = ysgo.NewDialogueRunner(st, w.Host.Seed, readers...)
	}()
	if panicVal != nil || h.loadErr != nil || h.dr == nil {
		return h, panicVal
	}
	h.register()
	return h, nil
}

func hostWrite(st variable.Storer, name string, v Val) {
	switch v.K {
	case 'n':
		st.SetNumberValue(name, v.N)
	case 'b':
		st.SetBooleanValue(name, v.B)
	default:
		st.SetStringValue(name, v.S)
	}
}

// activeHost is the host whose runner the plan is stepping right now (deterministic C18 worlds only:
// trackActive). A host FUNCTION runs synchronously inside Next, so it can only ever be invoked for the
// runner being stepped; one that arrives at another runner's host has crossed over.
var (
	trackActive bool
	activeHost  *Host
	foreignCall string
)

func (h *Host) call(kind, name string, args ...any) {
	if trackActive && kind == "fn" && activeHost != nil && activeHost != h && foreignCall == "" {
		foreignCall = fmt.Sprintf("host function %s registered on one runner was invoked while another runner was executing", name)
	}
	s := kind + " " + name + "("
	for i, a := range args {
		if i > 0 {
			s += ","
		}
		s += goCanon(a)
	}
	h.event(s + ")")
	if h.onCall != nil {
		h.onCall(kind, name)
	}
}

func goCanon(a any) string {
	switch x := a.(type) {
	case float64:
		return numV(x).canon()
	case bool:
		return boolV(x).canon()
	case string:
		return strV(x).canon()
	}
	return fmt.Sprintf("%T:%v", a, a)
}

var errProbe = errors.New("probe failure")

// host errors come in every shape a Go error can have: pointer, string-typed, struct-valued
type strErr string

func (e strErr) Error() string { return string(e) }

type valueErr struct{ msg string }

func (e valueErr) Error() string { return e.msg }

func hostError(k int) error {
	if k < 0 {
		k = -k
	}
	switch k % 5 {
	case 3:
		return io.EOF // a host whose function reads a file: the commonest sentinel there is
	case 4:
		return fmt.Errorf("save slot: %w", io.ErrUnexpectedEOF)
	}
	switch k % 3 {
	case 1:
		return strErr("injected failure (string-typed error)")
	case 2:
		return valueErr{"injected failure (struct-valued error)"}
	}
	return errors.New("injected command failure")
}

func (h *Host) register() {
	if h.spec.Probes {
		must := func(err error) {
			if err != nil {
				panic("harness: probe registration failed: " + err.Error())
			}
		}
		must(h.dr.ConvertAndAddFunction("pn", func(x float64) float64 { h.call("fn", "pn", x); return probePN(x) }))
		must(h.dr.ConvertAndAddFunction("pnn", func(x namedFloat) namedFloat { h.call("fn", "pnn", float64(x)); return namedFloat(probePN(float64(x))) }))
		must(h.dr.ConvertAndAddFunction("pn2", func(a, b float64) float64 { h.call("fn", "pn2", a, b); return probePN2(a, b) }))
		must(h.dr.ConvertAndAddFunction("pb", func(b bool) bool { h.call("fn", "pb", b); return !b }))
		h.dr.AddFunction("ps", func(args []*variable.Value) (*variable.Value, error) {
			if len(args) != 1 || args[0] == nil || args[0].String == nil {
				return nil, errors.New("ps expects one string")
			}
			h.call("fn", "ps", *args[0].String)
			return variable.NewString(probePS(*args[0].String)), nil
		})
		must(h.dr.ConvertAndAddFunction("pv", func() { h.call("fn", "pv") }))
		must(h.dr.ConvertAndAddFunction("enter", func(n string) { h.call("fn", "enter", n) }))
		must(h.dr.ConvertAndAddFunction("via", func(from, to string) string { h.call("fn", "via", from, to); return to }))
		must(h.dr.ConvertAndAddFunction("pw", func(name string, x float64) {
			h.call("fn", "pw", name, x)
			if gStats != nil {
				gStats.fault("host_function_writes_variable")
			}
			if h.st != nil {
				h.st.SetNumberValue(name, x)
			}
		}))
		// pclr(): a host function that empties the host's storer while a statement is being evaluated, then answers 1
		must(h.dr.ConvertAndAddFunction("pclr", func() float64 {
			h.call("fn", "pclr")
			if gStats != nil {
				gStats.fault("host_function_clears_the_storer_mid_statement")
			}
			if h.st != nil {
				h.st.Clear()
			}
			return 1
		}))
		// pty(name): a host function that gives the variable another type through the storer while a statement is
		// being evaluated, and answers a value of the type the variable had before (so that an assignment of the
		// answer to that variable agrees with the old type and disagrees with what the storer holds now)
		h.dr.AddFunction("pty", func(args []*variable.Value) (*variable.Value, error) {
			if len(args) != 1 || args[0] == nil || args[0].String == nil {
				return nil, errors.New("pty expects one string")
			}
			name := *args[0].String
			h.call("fn", "pty", name)
			if gStats != nil {
				gStats.fault("host_function_retypes_a_variable_mid_statement")
			}
			if h.st == nil {
				return variable.NewNumber(7), nil
			}
			cur, ok := h.st.GetValue(name)
			switch {
			case ok && cur != nil && cur.String != nil:
				h.st.SetNumberValue(name, 7)
				return variable.NewString("Bob"), nil
			case ok && cur != nil && cur.Number != nil:
				h.st.SetStringValue(name, "x")
				return variable.NewNumber(5), nil
			case ok && cur != nil && cur.Boolean != nil:
				h.st.SetNumberValue(name, 7)
				return variable.NewBoolean(true), nil
			}
			h.st.SetNumberValue(name, 7)
			return variable.NewNumber(7), nil
		})
		// prr(name, v): a host function that registers the handler of command `name` again (a new closure) and answers v:
		// written as an argument of that very command, it replaces the handler while the statement is being evaluated
		h.dr.AddFunction("prr", func(args []*variable.Value) (*variable.Value, error) {
			if len(args) != 2 || args[0] == nil || args[0].String == nil || args[1] == nil {
				return nil, errors.New("prr expects a name and a value")
			}
			v, ok := fromYarn(args[1])
			if !ok {
				return nil, errors.New("prr expects a value")
			}
			var gv any = v.S
			switch v.K {
			case 'n':
				gv = v.N
			case 'b':
				gv = v.B
			}
			h.call("fn", "prr", *args[0].String, gv)
			h.Reregister(*args[0].String)
			return toYarn(v), nil
		})
		must(h.dr.ConvertAndAddFunction("pboom", func(k float64) {
			h.call("fn", "pboom", k)
			h.hostPanicked = true
			if gStats != nil {
				gStats.fault("host_function_panics_with_a_value_of_its_own")
			}
			switch int(k) % 3 {
			case 0:
				panic(hostPanicValue{"the host's own trouble"})
			case 1:
				panic(42)
			}
			panic([]string{"audit", "failed"})
		}))
		must(h.dr.ConvertAndAddFunction("pfail", func(x float64) (float64, error) { h.call("fn", "pfail", x); return 0, hostError(int(x)) }))
	}
	if h.spec.FailedRegs {
		if gStats != nil {
			gStats.fault("registration_refused")
		}
		// the errors are the expected answer; what must not happen is a half-made entry
		_ = h.dr.ConvertAndAddFunction("nofunc", func(c chan int) chan int { return c })
		_ = h.dr.ConvertAndAddFunction("round", func(c chan int) chan int { return c })
		_ = h.dr.ConvertAndAddFunction("visited", func(m map[string]int) {})
		_ = h.dr.ConvertAndAddCommand("nocmd", func(c chan int) {})
		_ = h.dr.ConvertAndAddCommand("wait", func(c chan int) {})
	}
	if h.spec.Overrides {
		if gStats != nil {
			gStats.fault("host_overrides_builtin_names")
		}
		h.dr.AddFunction("visited_count", func(args []*variable.Value) (*variable.Value, error) {
			h.call("fn", "host_visited_count")
			return variable.NewNumber(42), nil
		})
		h.dr.AddFunction("visited", func(args []*variable.Value) (*variable.Value, error) {
			h.call("fn", "host_visited")
			return variable.NewBoolean(true), nil
		})
		h.dr.AddFunction("round", func(args []*variable.Value) (*variable.Value, error) {
			h.call("fn", "host_round")
			return variable.NewNumber(-7), nil
		})
		h.dr.AddFunction("string", func(args []*variable.Value) (*variable.Value, error) {
			h.call("fn", "host_string")
			return variable.NewString("hs"), nil
		})
	}
	for _, hs := range h.spec.Handlers {
		h.registerHandler(hs)
	}
}

var (
	tError  = reflect.TypeOf((*error)(nil)).Elem()
	tChan   = reflect.TypeOf((chan error)(nil))
	tROChan = reflect.TypeOf((<-chan error)(nil))
)

// named types of the supported kinds: a host may declare its functions and handlers with them
type namedInt int
type namedFloat float64
type namedString string
type namedBool bool

func goType(k string) reflect.Type {
	switch k {
	case "MyInt":
		return reflect.TypeOf(namedInt(0))
	case "MyFloat":
		return reflect.TypeOf(namedFloat(0))
	case "MyString":
		return reflect.TypeOf(namedString(""))
	case "MyBool":
		return reflect.TypeOf(namedBool(false))
	case "int":
		return reflect.TypeOf(int(0))
	case "int8":
		return reflect.TypeOf(int8(0))
	case "int64":
		return reflect.TypeOf(int64(0))
	case "float32":
		return reflect.TypeOf(float32(0))
	case "float64":
		return reflect.TypeOf(float64(0))
	case "string":
		return reflect.TypeOf("")
	case "bool":
		return reflect.TypeOf(false)
	}
	panic("harness: unknown parameter kind " + k)
}

func reflCanon(v reflect.Value) string {
	switch v.Kind() {
	case reflect.Int, reflect.Int8, reflect.Int16, reflect.Int32, reflect.Int64:
		return fmt.Sprintf("%s:%d", v.Kind(), v.Int())
	case reflect.Float32, reflect.Float64:
		return fmt.Sprintf("%s:%s", v.Kind(), numV(v.Float()).canon())
	case reflect.String:
		return "string:" + fmt.Sprintf("%q", v.String())
	case reflect.Bool:
		return fmt.Sprintf("bool:%v", v.Bool())
	}
	return "?" + v.Kind().String()
}

// expectedArgCanon is what a handler parameter of Go kind k must receive for the
// model value v; ok=false when the conversion is not settled by the claimed
// properties (non-integral number into an integer kind, out of range).
func expectedArgCanon(k string, v Val) (string, bool) {
	switch k {
	case "MyString":
		return "string:" + fmt.Sprintf("%q", v.S), v.K == 's'
	case "MyBool":
		return fmt.Sprintf("bool:%v", v.B), v.K == 'b'
	case "MyFloat":
		return "float64:" + numV(v.N).canon(), v.K == 'n'
	case "MyInt":
		if v.K != 'n' || v.N != math.Trunc(v.N) || math.Abs(v.N) > 100 {
			return "", false
		}
		return fmt.Sprintf("int:%d", int64(v.N)), true
	case "string":
		return "string:" + fmt.Sprintf("%q", v.S), v.K == 's'
	case "bool":
		return fmt.Sprintf("bool:%v", v.B), v.K == 'b'
	case "float64":
		return "float64:" + numV(v.N).canon(), v.K == 'n'
	case "float32":
		return "float32:" + numV(float64(float32(v.N))).canon(), v.K == 'n'
	case "int", "int64", "int8":
		if v.K != 'n' || v.N != math.Trunc(v.N) || math.Abs(v.N) > 100 {
			return "", false
		}
		return fmt.Sprintf("%s:%d", k, int64(v.N)), true
	}
	return "", false
}

func (h *Host) newInv(name string, args []string) *Inv {
	h.mu.Lock()
	inv := &Inv{Index: len(h.invs), Name: name, Args: args}
	if len(h.spec.Scheds) > 0 {
		inv.Sched = h.spec.Scheds[inv.Index%len(h.spec.Scheds)]
	}
	h.invs = append(h.invs, inv)
	h.mu.Unlock()
	h.event(fmt.Sprintf("cmd %s(%s)#%d", name, strings.Join(args, ","), inv.Index))
	if h.onCall != nil {
		h.onCall("cmd", name)
	}
	return inv
}

// Reregister registers the handler of a command again (same shape, a new closure), as a host does that swaps
// behaviour between two scenes.
func (h *Host) Reregister(name string) {
	for _, hs := range h.spec.Handlers {
		if hs.Name == name {
			h.registerHandler(hs)
			if gStats != nil {
				gStats.fault("handler_replaced_between_executions")
			}
			return
		}
	}
}

func schedErrN(s Sched, k int) error {
	if s.Err {
		return hostError(k)
	}
	return nil
}

func (h *Host) registerHandler(hs HandlerSpec) {
	// every registration of a name is a new generation of its handler; a handler of an older generation that is
	// still invoked after the host replaced it is noted (ground truth: the host knows which closure it registered last)
	if h.gen == nil {
		h.gen = map[string]int{}
	}
	h.gen[hs.Name]++
	gen := h.gen[hs.Name]
	newInv := func(args []string) *Inv {
		h.mu.Lock()
		if h.gen[hs.Name] != gen && h.staleHandler == "" {
			h.staleHandler = fmt.Sprintf("%s (generation %d invoked, generation %d is registered)", hs.Name, gen, h.gen[hs.Name])
		}
		h.mu.Unlock()
		return h.newInv(hs.Name, args)
	}
	rawArgs := func(args []*variable.Value) []string {
		out := make([]string, len(args))
		for i, a := range args {
			if v, ok := fromYarn(a); ok {
				out[i] = v.canon()
			} else {
				out[i] = "invalid"
			}
		}
		return out
	}
	switch hs.Shape {
	case "raw_prefilled":
		h.dr.AddCommand(hs.Name, func(args []*variable.Value) <-chan error {
			inv := newInv(rawArgs(args))
			h.reenter(inv)
			inv.Sched.Immediate = true
			inv.released = true
			ch := make(chan error, 1)
			complete(ch, schedErrN(inv.Sched, inv.Index), inv.Sched.Close)
			return ch
		})
	case "raw_buffered":
		h.dr.AddCommand(hs.Name, func(args []*variable.Value) <-chan error {
			inv := newInv(rawArgs(args))
			h.reenter(inv)
			inv.ch = make(chan error, 1)
			if inv.Sched.Immediate {
				inv.released = true
				complete(inv.ch, schedErrN(inv.Sched, inv.Index), inv.Sched.Close)
			}
			return inv.ch
		})
	case "raw_unbuffered":
		h.dr.AddCommand(hs.Name, func(args []*variable.Value) <-chan error {
			inv := newInv(rawArgs(args))
			h.reenter(inv)
			inv.gate = make(chan error, 1)
			if inv.Sched.Immediate {
				if h.freeRunning {
					inv.released = true
					inv.gate <- schedErrN(inv.Sched, inv.Index)
				} else {
					inv.auto = true
				}
			}
			out := make(chan error)
			done := h.done
			go func() {
				var res error
				select {
				case res = <-inv.gate:
				case <-done:
					return
				}
				if res == nil && inv.Sched.Close {
					close(out)
					return
				}
				select {
				case out <- res:
				case <-done:
				}
			}()
			return out
		})
	default:
		in := make([]reflect.Type, 0, len(hs.Params)+1)
		for _, p := range hs.Params {
			in = append(in, goType(p))
		}
		if hs.Vari != "" {
			in = append(in, reflect.SliceOf(goType(hs.Vari)))
		}
		var out []reflect.Type
		switch hs.Shape {
		case "conv_error":
			out = []reflect.Type{tError}
		case "conv_chan":
			out = []reflect.Type{tChan}
		case "conv_rochan":
			out = []reflect.Type{tROChan}
		case "conv_sendchan": // legal Go, useless to the runner: whatever it does with it, it must not panic
			out = []reflect.Type{reflect.TypeOf((chan<- error)(nil))}
		case "conv_errtypechan":
			out = []reflect.Type{reflect.TypeOf((chan *hostErrT)(nil))}
		}
		ft := reflect.FuncOf(in, out, hs.Vari != "")
		fn := reflect.MakeFunc(ft, func(args []reflect.Value) []reflect.Value {
			var canon []string
			for i, a := range args {
				if hs.Vari != "" && i == len(args)-1 {
					for j := 0; j < a.Len(); j++ {
						canon = append(canon, reflCanon(a.Index(j)))
					}
					continue
				}
				canon = append(canon, reflCanon(a))
			}
			inv := newInv(canon)
			switch hs.Shape {
			case "conv_none":
				inv.gate = make(chan error, 1)
				if inv.Sched.Immediate && h.freeRunning {
					inv.released = true
				} else {
					inv.auto = inv.Sched.Immediate
					select {
					case <-inv.gate:
					case <-h.done:
					}
				}
				return nil
			case "conv_error":
				inv.gate = make(chan error, 1)
				var res error
				if inv.Sched.Immediate && h.freeRunning {
					inv.released = true
					res = schedErrN(inv.Sched, inv.Index)
				} else {
					inv.auto = inv.Sched.Immediate
					select {
					case res = <-inv.gate:
					case <-h.done:
					}
				}
				rv := reflect.New(tError).Elem()
				if res != nil {
					rv.Set(reflect.ValueOf(res))
				}
				return []reflect.Value{rv}
			case "conv_sendchan":
				inv.released = true
				var so chan<- error = make(chan error, 1)
				return []reflect.Value{reflect.ValueOf(so)}
			case "conv_errtypechan":
				inv.released = true
				c := make(chan *hostErrT, 1)
				c <- nil
				return []reflect.Value{reflect.ValueOf(c)}
			default:
				h.reenter(inv)
				inv.ch = make(chan error, 1)
				if inv.Sched.Immediate {
					inv.released = true
					complete(inv.ch, schedErrN(inv.Sched, inv.Index), inv.Sched.Close)
				}
				if hs.Shape == "conv_rochan" {
					var ro <-chan error = inv.ch
					return []reflect.Value{reflect.ValueOf(ro)}
				}
				return []reflect.Value{reflect.ValueOf(inv.ch)}
			}
		})
		if err := h.dr.ConvertAndAddCommand(hs.Name, fn.Interface()); err != nil {
			if oddShape(hs.Shape) {
				return // refusing such a handler at registration is as good an answer as any
			}
			panic("harness: handler registration failed: " + err.Error())
		}
	}
}

// hostErrT is a concrete error type (a channel of it is not a channel of error).
type hostErrT struct{ msg string }

func (e *hostErrT) Error() string { return e.msg }

func oddShape(shape string) bool { return shape == "conv_sendchan" || shape == "conv_errtypechan" }

// reenter: called from handlers that run on the runner's own goroutine.
func (h *Host) reenter(inv *Inv) {
	if !h.spec.Reentrant || h.dr == nil {
		return
	}
	if gStats != nil {
		gStats.fault("handler_registers_while_running")
	}
	name := fmt.Sprintf("reg%d", inv.Index)
	h.dr.AddCommand(name, func(args []*variable.Value) <-chan error {
		ch := make(chan error, 1)
		ch <- nil
		return ch
	})
	h.dr.AddFunction(name, func(args []*variable.Value) (*variable.Value, error) { return variable.NewNumber(0), nil })
}

// Release completes invocation i (the host's decision, taken by the plan).
func (h *Host) Release(i int, failed bool) bool {
	inv := h.inv(i)
	if inv == nil {
		return false
	}
	if inv.released {
		return false
	}
	inv.released = true
	var res error
	if failed {
		res = hostError(i)
	}
	switch {
	case inv.ch != nil:
		complete(inv.ch, res, inv.Sched.Close)
	case inv.gate != nil:
		inv.gate <- res
	}
	return true
}

// complete reports a handler's result on its channel: by a send, or - a common Go idiom for "done" -
// by closing the channel without sending when there is no error (after sending when there is one).
func complete(ch chan error, res error, closing bool) {
	if closing && gStats != nil {
		gStats.fault("completion_by_close")
	}
	if closing && res == nil {
		close(ch)
		return
	}
	ch <- res
	if closing {
		close(ch)
	}
}

// releaseAuto completes the invocations that need no host decision; called by the executors after the
// dispatching call has returned and the bubble has settled.
func (h *Host) releaseAuto() bool {
	h.mu.Lock()
	var todo []*Inv
	for _, inv := range h.invs {
		if inv.auto && !inv.released {
			todo = append(todo, inv)
		}
	}
	h.mu.Unlock()
	for _, inv := range todo {
		h.Release(inv.Index, inv.Sched.Err)
	}
	return len(todo) > 0
}

// Close lets every handler goroutine finish.
func (h *Host) Close() {
	select {
	case <-h.done:
	default:
		close(h.done)
	}
}

func sameTags(a, b []string) bool {
	if len(a) != len(b) {
		return false
	}
	for i := range a {
		if a[i] != b[i] {
			return false
		}
	}
	return true
}

func toResp(el *ysgo.DialogueElement, err error) Resp {
	if err != nil {
		if errors.Is(err, ysgo.ErrWaitingForCommandCompletion) {
			if el != nil {
				return Resp{Kind: rError, Err: "waiting error together with an element"}
			}
			return Resp{Kind: rWaiting}
		}
		r := Resp{Kind: rError, Err: err.Error()}
		if el != nil {
			r.Err = "element together with error: " + r.Err
		}
		return r
	}
	if el == nil {
		return Resp{Kind: rEnd}
	}
	if el.Line != nil {
		return Resp{Kind: rLine, Node: el.Node, Text: el.Line.Text, Tags: el.Line.Tags}
	}
	r := Resp{Kind: rOptions, Node: el.Node}
	for _, o := range el.Options {
		or := OptResp{Disabled: o.Disabled}
		if o.Line != nil {
			or.Text, or.Tags = o.Line.Text, o.Line.Tags
		}
		r.Opts = append(r.Opts, or)
	}
	return r
}

// Next calls the real runner, recovering a panic into a response.
func (h *Host) Next(arg int) (r Resp) {
	r, _ = h.NextEl(arg)
	return r
}

func (h *Host) NextEl(arg int) (r Resp, el *ysgo.DialogueElement) {
	h.hostPanicked = false
	defer func() {
		if p := recover(); p != nil {
			r = Resp{Kind: rPanic, Err: fmt.Sprint(p)}
			if h.hostPanicked {
				// the host's own function panicked during this call and the panic came back to the host:
				// nobody's fault but the host's, which carries on
				r.Kind = rHostPanic
			}
		}
	}()
	var err error
	el, err = h.dr.Next(arg)
	if el != nil && h.spec.Scribble {
		// the host takes note of the element (a copy of its own), then writes all over what it was given
		b, _ := json.Marshal(el)
		h.kept = append(h.kept, keptEl{nil, string(b)})
		if len(h.kept) > 4 {
			h.kept = h.kept[len(h.kept)-4:]
		}
		r = toResp(el, err)
		r.Tags = append([]string(nil), r.Tags...)
		for i := range r.Opts {
			r.Opts[i].Tags = append([]string(nil), r.Opts[i].Tags...)
		}
		scribble(el)
		return r, nil
	}
	if el != nil {
		// what was handed to the host stays what it was (checked by whoever asks keptChanged later)
		b, _ := json.Marshal(el)
		h.kept = append(h.kept, keptEl{el, string(b)})
		if len(h.kept) > 4 {
			h.kept = h.kept[len(h.kept)-4:]
		}
	}
	return toResp(el, err), el
}

// hostPanicValue is what the host function pboom panics with: a value of the host's own.
type hostPanicValue struct{ what string }

// scribble overwrites everything a host can reach in an element it was given.
func scribble(el *ysgo.DialogueElement) {
	line := func(l *ysgo.Line) {
		if l == nil {
			return
		}
		l.Text = "scribbled"
		for i := range l.Tags {
			l.Tags[i] = "scribbled"
		}
		l.Tags = append(l.Tags, "scribbled")
		for i := range l.Attributes {
			a := &l.Attributes[i]
			for k := range a.Properties {
				a.Properties[k] = markup.Value{StringValue: "scribbled", ValueType: markup.ValueTypeString}
			}
			if a.Properties != nil {
				a.Properties["scribbled"] = markup.Value{IntegerValue: 99, ValueType: markup.ValueTypeInteger}
			}
			a.Name, a.Position, a.Length, a.SourcePosition = "scribbled", 99, 99, 99
		}
		l.Attributes = append(l.Attributes, markup.Attribute{Name: "scribbled"})
	}
	el.Node = "scribbled"
	line(el.Line)
	for i := range el.Options {
		line(el.Options[i].Line)
		el.Options[i].Disabled = !el.Options[i].Disabled
	}
	if gStats != nil {
		gStats.fault("host_scribbles_on_the_elements_it_was_given")
	}
}

type keptEl struct {
	el    *ysgo.DialogueElement
	canon string
}

// keptChanged reports the first element, among the last few this runner returned, whose content is no
// longer what it was when it was returned.
func (h *Host) keptChanged() string {
	for _, k := range h.kept {
		if k.el == nil {
			continue // the host scribbled on this one itself
		}
		if b, _ := json.Marshal(k.el); string(b) != k.canon {
			return fmt.Sprintf("returned %s, now %s", k.canon, b)
		}
	}
	return ""
}

// StoreCanon is the host-visible content of the storer, canonicalised.
func (h *Host) StoreCanon() map[string]string {
	if h.st == nil {
		return nil
	}
	out := map[string]string{}
	for k, v := range h.st.GetValues() {
		vv := v
		if c, ok := fromYarn(&vv); ok {
			out[k] = c.canon()
		} else {
			out[k] = "invalid-value"
		}
	}
	return out
}

func canonStore(m map[string]Val) map[string]string {
	out := make(map[string]string, len(m))
	for k, v := range m {
		out[k] = v.canon()
	}
	return out
}

func sameStrMap(a, b map[string]string) bool {
	if len(a) != len(b) {
		return false
	}
	for k, v := range a {
		if w, ok := b[k]; !ok || w != v {
			return false
		}
	}
	return true
}

func fmtStrMap(m map[string]string) string {
	keys := make([]string, 0, len(m))
	for k := range m {
		keys = append(keys, k)
	}
	sort.Strings(keys)
	var sb strings.Builder
	sb.WriteString("{")
	for i, k := range keys {
		if i > 0 {
			sb.WriteString(", ")
		}
		sb.WriteString(k + ": " + m[k])
	}
	sb.WriteString("}")
	return sb.String()
}

func respDiff(exp, got Resp) string {
	switch {
	case exp.Kind != got.Kind:
		return "kind"
	case exp.Node != got.Node:
		return "node"
	case !textMatch(exp.Text, got.Text, exp.Wild):
		return "text"
	case !sameTags(exp.Tags, got.Tags):
		return "tags"
	case len(exp.Opts) != len(got.Opts):
		return "options"
	}
	for i := range exp.Opts {
		if !textMatch(exp.Opts[i].Text, got.Opts[i].Text, exp.Wild) || !sameTags(exp.Opts[i].Tags, got.Opts[i].Tags) {
			return "options"
		}
	}
	for i := range exp.Opts {
		if exp.Opts[i].Disabled != got.Opts[i].Disabled {
			return "disabled"
		}
	}
	return ""
}

// textMatch compares an expected text with an observed one; with wild set, each
// \x00 in the expected text stands for one number whose display form is not claimed.
func textMatch(exp, got string, wild bool) bool {
	if !wild || !strings.Contains(exp, "\x00") {
		return exp == got
	}
	segs := strings.Split(exp, "\x00")
	for i := range segs {
		segs[i] = regexp.QuoteMeta(segs[i])
	}
	re, err := regexp.Compile("^" + strings.Join(segs, `\S+`) + "$")
	if err != nil {
		return false
	}
	return re.MatchString(got)
}
