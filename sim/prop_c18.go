package zz_verif_sim

// C18 — independent runners. Deterministic part: the plan interleaves the
// creation and the steps of 2-4 runners in one total order and runs bursts of
// one runner's steps inside the callbacks of another (mid-Next, mid-render,
// mid-dispatch); each runner's trace must equal the trace of the same steps
// executed alone. The free-running part (-race, real scheduler) is in race.go.

import (
	"fmt"
	"regexp"
	"sort"
	"strings"
)

type c18Runner struct {
	World World `json:"world"`
	Ops   []Op  `json:"ops"`
}

type c18Plan struct {
	Runners    []c18Runner `json:"runners"`
	Order      []int       `json:"order"`
	BurstEvery int         `json:"burst_every"`
	BurstLen   int         `json:"burst_len"`
	// Broken: scripts whose load is aborted (mixed indentation inside an open block, end of input inside a
	// block, a syntax error, a read error). Order values >= len(Runners) are attempts to load one of them:
	// what a failed creation leaves behind must not reach the runners created or stepped around it.
	Broken []World `json:"broken,omitempty"`
}

// lineIDRE finds the id word of generated lines ("L12") at the start of a line.
var lineIDRE = regexp.MustCompile(`(?m)^(\s*L\d+)\b`)

var brokenTails = []string{
	"title: Brk\n---\n-> a\n    x\n \ty\n===\n",
	"title: Brk\n---\n-> a\n    <<if true>>\n        deep\n",
	"title: Brk\n---\n<<set $x = >>\n===\n",
	"title: Brk\n---\n-> a\n\tx\n        y\n    -> b\n \t z\n===\n",
	"title: Brk\n---\n-> a\n    -> b\n        -> c\n\t\t    mixed\n===\n",
}

// brokenWorld: the scripts of w followed by a node that makes the load fail half-way.
func brokenWorld(tp *Tape, w *World) World {
	text := ""
	for _, r := range w.Readers {
		text += string(r.bytes())
		if !strings.HasSuffix(text, "\n") {
			text += "\n"
		}
	}
	b := World{Host: w.Host}
	k := tp.Int(0, len(brokenTails), "brokenkind")
	if k == len(brokenTails) {
		rs := ReaderSpec{Text: text, ErrAt: 1 + tp.Int(0, len(text), "brokenerrat")}
		b.Readers = []ReaderSpec{rs}
		return b
	}
	b.Readers = []ReaderSpec{{Text: text + brokenTails[k]}}
	return b
}

func c18Gen(tp *Tape, env *Env, maxRunners int) (*c18Plan, []*Program) {
	nprog := tp.Int(1, 2, "nprog")
	var progs []*Program
	var worlds []World
	var vars [][3][]string
	for i := 0; i < nprog; i++ {
		cfg := &GenCfg{
			MaxNodes: tp.Int(3, 6, "maxnodes"), MaxStmts: 4, MaxDepth: 2, MaxTotal: 20,
			WLine: 9, WOptions: 4, WIf: 3, WSet: 4, WJump: 3, WJumpE: 1, WStop: 1, WCall: 2, WCommand: 2,
			NVars: [3]int{2, 1, 1}, NJVars: 1, Probes: true, Visited: true, Random: tp.Bool("random"), ExprDepth: 2,
			InlinePct: 35, CondPct: 30, VarLines: true, Builtins: true, MoreBuiltins: 20, NoStringSelfGrowth: true, CountLines: tp.Chance(30, "countlines"), MarkupLines: true,
		}
		if tp.Bool("cmds") {
			cfg.Handlers = drawHandlers(tp, 2)
		} else {
			cfg.WCommand = 0
		}
		g := &gen{tp: tp, cfg: cfg}
		p := g.program()
		g.ensureYieldingCycles(p)
		layout := genLayout(tp)
		w := World{Readers: distribute(tp, p, layout, 2)}
		w.Host = HostSpec{Storer: []string{"rec", "mem", "default"}[tp.Int(0, 2, "storer")], Probes: true, Seed: []string{"s1", "abc", "7"}[tp.Int(0, 2, "seed")], Handlers: cfg.Handlers, Overrides: tp.Chance(10, "hostoverrides"), Scribble: tp.Chance(20, "scribble")}
		if len(cfg.Handlers) > 0 {
			w.Host.Scheds = drawScheds(tp, true)
		}
		progs = append(progs, p)
		worlds = append(worlds, w)
		vars = append(vars, g.vars)
	}
	cp := &c18Plan{BurstEvery: tp.Int(1, 6, "burstevery"), BurstLen: tp.Int(1, 3, "burstlen")}
	nr := tp.Int(2, maxRunners, "nrunners")
	total := 0
	for r := 0; r < nr; r++ {
		pi := tp.Int(0, nprog-1, "whichprog")
		n := tp.Int(2, 14, "nops")
		ops := drawDynOps(tp, n, vars[pi], 10, len(worlds[pi].Host.Handlers) > 0)
		if tp.Chance(25, "withsnap") && len(ops) > 3 {
			at := tp.Int(0, len(ops)/2, "snapat")
			ops = append(ops[:at], append([]Op{{K: "snapshot", Slot: 0}}, ops[at:]...)...)
			rt := tp.Int(at+1, len(ops), "restoreat")
			ops = append(ops[:rt], append([]Op{{K: "restore", Slot: 0}}, ops[rt:]...)...)
		}
		w := worlds[pi]
		if len(w.Readers) >= 2 && tp.Chance(35, "readervariant") {
			// the same first reader, a last reader that differs in one line's text: two runners whose scripts share a
			// prefix byte for byte are still two independent dialogues
			last := w.Readers[len(w.Readers)-1]
			if last.B64 == "" {
				if v := lineIDRE.ReplaceAllString(last.Text, "${1}v"+fmt.Sprint(r)); v != last.Text {
					last.Text = v
					w.Readers = append(append([]ReaderSpec{}, w.Readers[:len(w.Readers)-1]...), last)
				}
			}
		}
		cp.Runners = append(cp.Runners, c18Runner{World: w, Ops: ops})
		total += len(ops) + 1
	}
	for i := 0; i < total; i++ {
		cp.Order = append(cp.Order, tp.Int(0, nr-1, "turn"))
	}
	if tp.Chance(30, "brokenloads") {
		nb := tp.Int(1, 2, "nbroken")
		for k := 0; k < nb; k++ {
			cp.Broken = append(cp.Broken, brokenWorld(tp, &worlds[tp.Int(0, nprog-1, "brokenof")]))
			for j := tp.Int(1, 3, "brokentimes"); j > 0; j-- {
				// mostly early: before some runner has been created
				at := tp.Int(0, len(cp.Order), "brokenat")
				if tp.Chance(60, "brokenearly") {
					at = tp.Int(0, min(3, len(cp.Order)), "brokenatearly")
				}
				cp.Order = append(cp.Order[:at], append([]int{nr + k}, cp.Order[at:]...)...)
			}
		}
	}
	return cp, progs
}

func c18World(tp *Tape, env *Env) (*Plan, *Violation) {
	cp, progs := c18Gen(tp, env, 4)
	plan := &Plan{Harness: 1, Property: "C18", Program: progs[0], Extra: map[string]any{"c18": cp}}
	env.St.sample(map[string]any{"runners": len(cp.Runners), "order": cp.Order, "burst_every": cp.BurstEvery, "first_script": readerTexts(&cp.Runners[0].World)})
	journal(plan)
	return plan, c18Exec(plan, env.St)
}

// applyTraced applies an op and appends what the runner showed to its trace.
func applyTraced(d *dynRunner, i int, op *Op, sb *strings.Builder) {
	ev0 := d.h.nEvents()
	r := d.apply(op)
	if r != nil {
		fmt.Fprintf(sb, "%d %s|%s|%s|%v|%s", i, r.Kind, r.Node, r.Text, r.Tags, r.Err)
		for _, o := range r.Opts {
			fmt.Fprintf(sb, "|%s/%v/%v", o.Text, o.Tags, o.Disabled)
		}
		sb.WriteString("\n")
		if (r.Kind == rLine || r.Kind == rOptions) && len(d.h.kept) > 0 {
			// the whole element as the host received it: markup attributes and their properties included
			fmt.Fprintf(sb, "  element %s\n", d.h.kept[len(d.h.kept)-1].canon)
		}
	} else {
		fmt.Fprintf(sb, "%d %s\n", i, op.K)
	}
	fmt.Fprintf(sb, "  store %s\n", fmtStrMap(d.h.StoreCanon()))
	evs := d.h.eventsFrom(ev0)
	if op.K == "restore" {
		// RestoreAt refills the storer in map order: the order of those writes is not observable behaviour
		sort.Strings(evs)
	}
	fmt.Fprintf(sb, "  events %v\n", evs)
	sc := canonSnap(d.h.dr.Snapshot())
	fmt.Fprintf(sb, "  snap %s\n", sc.String())
}

func c18NeedsBubble(cp *c18Plan) bool {
	for _, r := range cp.Runners {
		if len(r.World.Host.Handlers) > 0 {
			return true
		}
	}
	return false
}

func c18Solo(r *c18Runner, bubble bool) string {
	var sb strings.Builder
	d, err := newDyn(&r.World, bubble)
	if err != nil {
		return "load failed: " + err.Error()
	}
	for i := range r.Ops {
		applyTraced(d, i, &r.Ops[i], &sb)
	}
	d.h.Close()
	return sb.String()
}

func c18Exec(plan *Plan, st *Stats) *Violation {
	cp, ok := decodeExtra[*c18Plan](plan, "c18")
	if !ok || cp == nil {
		return nil
	}
	bubble := c18NeedsBubble(cp)
	var viol *Violation
	body := func() {
		trackActive, activeHost, foreignCall = true, nil, ""
		defer func() { trackActive, activeHost = false, nil }()
		nr := len(cp.Runners)
		solo := make([]string, nr)
		for r := range cp.Runners {
			solo[r] = c18Solo(&cp.Runners[r], bubble)
		}
		// interleaved execution
		dyn := make([]*dynRunner, nr)
		failed := make([]string, nr)
		ptr := make([]int, nr)
		traces := make([]strings.Builder, nr)
		cur, inBurst, callbacks, bursts, rr := -1, false, 0, 0, 0
		var step func(r int) bool
		burstKind := ""
		root := curGID()
		burst := func() {
			if inBurst || settling || curGID() != root {
				return
			}
			callbacks++
			if callbacks%cp.BurstEvery != 0 {
				return
			}
			inBurst = true
			defer func() { inBurst = false }()
			for k := 0; k < nr; k++ {
				b := (rr + k) % nr
				if b == cur {
					continue
				}
				done := 0
				for done < cp.BurstLen && step(b) {
					done++
				}
				if done > 0 {
					rr = b + 1
					bursts++
					if st != nil {
						st.probe("burst_inside_" + burstKind)
					}
					return
				}
			}
		}
		step = func(r int) bool {
			if failed[r] != "" {
				return false
			}
			if dyn[r] == nil {
				// creation (parsing) is a step of its own, interleaved like any other
				d, err := newDyn(&cp.Runners[r].World, bubble)
				if err != nil {
					failed[r] = "load failed: " + err.Error()
					return true
				}
				d.h.onCall = func(kind, name string) {
					burstKind = "host_function"
					if kind == "cmd" {
						burstKind = "command_handler"
					}
					burst()
				}
				if d.h.rec != nil {
					d.h.rec.onRead = func(string) { burstKind = "storer_read"; burst() }
				}
				dyn[r] = d
				for o := range dyn {
					if o != r && dyn[o] != nil && ptr[o] > 0 && ptr[o] < len(cp.Runners[o].Ops) && st != nil {
						st.probe("runner_created_between_steps_of_another")
						break
					}
				}
				return true
			}
			if ptr[r] >= len(cp.Runners[r].Ops) {
				return false
			}
			i := ptr[r]
			ptr[r]++
			saved := cur
			if !inBurst {
				cur = r
			}
			applyTraced(dyn[r], i, &cp.Runners[r].Ops[i], &traces[r])
			cur = saved
			if foreignCall != "" && viol == nil {
				viol = &Violation{Clause: "C18.foreign-callback", OpIndex: r, Observed: foreignCall, Note: fmt.Sprintf("while runner %d executed op %d", r, i)}
			}
			// what the OTHER runners handed to the host earlier is still what it was
			for o := range dyn {
				if o != r && dyn[o] != nil && viol == nil {
					if msg := dyn[o].h.keptChanged(); msg != "" {
						viol = &Violation{Clause: "C18.returned-value", OpIndex: o, Observed: msg, Note: fmt.Sprintf("an element that runner %d had returned to the host changed while runner %d executed op %d", o, r, i)}
					}
				}
			}
			return true
		}
		for _, r := range cp.Order {
			if r < nr {
				step(r)
			} else if k := r - nr; k < len(cp.Broken) {
				// an aborted creation in between
				if d, err := newDyn(&cp.Broken[k], bubble); err == nil {
					d.h.Close()
				} else if st != nil {
					st.fault("aborted_load")
					for o := range dyn {
						if dyn[o] == nil {
							st.probe("aborted_load_before_a_creation")
							break
						}
					}
				}
			}
		}
		for r := 0; r < nr; r++ {
			for step(r) {
			}
		}
		for r := 0; r < nr && viol == nil; r++ {
			got := traces[r].String()
			if failed[r] != "" {
				got = failed[r]
			}
			if got != solo[r] {
				a, b := strings.Split(solo[r], "\n"), strings.Split(got, "\n")
				for i := 0; i < len(a) && i < len(b); i++ {
					if a[i] != b[i] {
						viol = &Violation{Clause: "C18.interleaved-trace", OpIndex: r, Expected: a[i], Observed: b[i], Note: fmt.Sprintf("runner %d of %d behaves differently when its steps are interleaved with other runners' (%d mid-call bursts)", r, nr, bursts)}
						break
					}
				}
				if viol == nil {
					viol = &Violation{Clause: "C18.interleaved-trace", OpIndex: r, Expected: len(a), Observed: len(b), Note: "trace lengths differ"}
				}
				break
			}
		}
		for r := range dyn {
			if dyn[r] != nil {
				dyn[r].h.Close()
			}
		}
		drain(bubble)
		if st != nil {
			st.inc("cases", 1)
			st.inc("runners", int64(nr))
			st.inc("mid_call_bursts", int64(bursts))
			st.fault("interleaved_steps")
			if bursts > 0 {
				st.fault("mid_call_preemption")
				st.distinct("nontrivial", hashJSON(cp))
			}
			st.distinct("schedules", hashStr(fmt.Sprint(cp.Order), fmt.Sprint(cp.BurstEvery, cp.BurstLen)))
		}
	}
	if bubble {
		if dl, msg := inBubble(body); dl && viol == nil {
			viol = &Violation{Clause: "C18.interleaved-trace", OpIndex: -1, Observed: msg, Note: "a call blocked"}
		}
	} else {
		body()
	}
	return viol
}
