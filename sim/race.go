package zz_verif_sim

// Free-running stress modes under the race detector (C10, C18). NOT
// deterministic and stated as such: real goroutines, real scheduler, real (tiny)
// sleeps. A race report is sound on its own; a trace mismatch is judged against
// the same world's sequential trace with every legal outcome of the
// uncontrolled choice (number of waiting responses) accepted.

import (
	"bytes"
	"fmt"
	"os"
	"os/exec"
	"regexp"
	"runtime"
	"strings"
	"sync"
	"time"
)

type racePlan struct {
	Prop    string         `json:"prop"`
	C18     *c18Plan       `json:"c18,omitempty"`
	C10     []*Plan        `json:"c10,omitempty"`
	Workers int            `json:"workers"`
	Rounds  int            `json:"rounds"`
	Extra   map[string]any `json:"extra,omitempty"`
}

// raceParent generates stress plans and runs each in a fresh child process of the
// -race binary (cold parser caches), looking for race reports and trace mismatches.
func raceParent(env *Env, prop string, addViolation func(*Plan, *Violation)) {
	bin := os.Getenv("VERIF_BIN")
	if bin == "" {
		bin = os.Args[0]
	}
	dir, err := os.MkdirTemp("", "race")
	if err != nil {
		return
	}
	defer os.RemoveAll(dir)
	worlds := 4
	if env.Thorough {
		worlds = 30
	}
	if *fWorlds > 0 {
		worlds = *fWorlds
	}
	flagSet("rapid.checks", fmt.Sprint(worlds))
	rs := mix64(mix64(env.VerifSeed, hashStr(prop+"race")), uint64(env.Shard)) & ((1 << 62) - 1)
	flagSet("rapid.seed", fmt.Sprint(rs|1))
	n := 0
	runRapid(env, prop+"race", func(tp *Tape) (*Plan, *Violation) {
		n++
		rp := &racePlan{Prop: prop, Workers: tp.Int(4, 16, "workers"), Rounds: 2}
		carrier := &Plan{Harness: 1, Property: prop}
		switch prop {
		case "C18":
			cp, _ := c18Gen(tp, env, 4)
			for i := range cp.Runners {
				// free-running: handlers complete on their own
				for j := range cp.Runners[i].World.Host.Scheds {
					cp.Runners[i].World.Host.Scheds[j].Immediate = true
				}
			}
			rp.C18 = cp
		case "C10":
			for k := 0; k < 3; k++ {
				p := c10StressPlan(tp, env)
				if p != nil {
					rp.C10 = append(rp.C10, p)
				}
			}
			if len(rp.C10) == 0 {
				return nil, nil
			}
		}
		carrier.Extra = map[string]any{"race_plan": rp}
		path := fmt.Sprintf("%s/race-%d.json", dir, n)
		b, _ := jsonMarshal(carrier)
		os.WriteFile(path, b, 0o644)
		cmd := exec.Command(bin, "-test.run", "^TestSim$", "-test.timeout", "0", "-sim.mode", "racechild", "-sim.replay", path)
		cmd.Env = append(os.Environ(), "GORACE=halt_on_error=0 exitcode=0")
		var out bytes.Buffer
		cmd.Stdout = &out
		cmd.Stderr = &out
		done := make(chan error, 1)
		go func() { done <- cmd.Run() }()
		select {
		case <-done:
		case <-time.After(600 * time.Second):
			cmd.Process.Kill()
			<-done
			env.St.inc("race_children_timed_out", 1)
			return carrier, nil
		}
		env.St.inc("cases", 1)
		env.St.inc("race_children", 1)
		env.St.fault("real_scheduler_cold_process")
		env.St.distinct("nontrivial", hashJSON(rp))
		o := out.String()
		if i := strings.Index(o, "WARNING: DATA RACE"); i >= 0 {
			end := i + 3000
			if end > len(o) {
				end = len(o)
			}
			return carrier, &Violation{Clause: prop + ".race", OpIndex: -1, Observed: o[i:end], Note: "the race detector reported a data race (free-running stress mode; not replayable by seed)"}
		}
		for _, line := range strings.Split(o, "\n") {
			if strings.HasPrefix(line, "STRESS-MISMATCH ") {
				clause := prop + ".parallel-trace"
				if prop == "C10" {
					clause = "C10.resume"
				}
				return carrier, &Violation{Clause: clause, OpIndex: -1, Observed: line, Note: "under the real scheduler a runner's trace differs from its sequential trace (free-running stress mode)"}
			}
			if strings.HasPrefix(line, "STRESS-OK ") {
				var c int
				fmt.Sscanf(line, "STRESS-OK %d", &c)
				env.St.inc("stress_traces_compared", int64(c))
			}
		}
		return carrier, nil
	}, addViolation)
}

func runRaceChild() {
	plan := loadPlanFile(*fReplay)
	rp, ok := decodeExtra[*racePlan](plan, "race_plan")
	if !ok || rp == nil {
		fmt.Println("STRESS-OK 0")
		return
	}
	switch rp.Prop {
	case "C18":
		raceChildC18(rp)
	case "C10":
		raceChildC10(rp)
	}
}

// freeRun drives one runner under the real scheduler: a waiting answer is
// polled again until the command completes (any number of polls is legal).
func freeRun(r *c18Runner) string {
	var sb strings.Builder
	d, err := newDyn(&r.World, false)
	if err != nil {
		return "load failed: " + err.Error()
	}
	d.h.freeRunning = true
	freeRunRange(d, r, 0, len(r.Ops), &sb)
	d.h.Close()
	return sb.String()
}

// freeRunRange applies ops [from,to) of r to an existing runner and appends their trace lines.
func freeRunRange(d *dynRunner, r *c18Runner, from, to int, sb *strings.Builder) {
	for i := from; i < to; i++ {
		op := r.Ops[i]
		if op.K == "advance" || op.K == "release_all" {
			continue
		}
		if op.K != "next" {
			d.apply(&op)
			continue
		}
		var resp *Resp
		deadline := time.Now().Add(90 * time.Second)
		for {
			last := d.last
			resp = d.apply(&op)
			if resp.Kind != rWaiting || time.Now().After(deadline) {
				break
			}
			d.last = last
			time.Sleep(20 * time.Microsecond)
		}
		fmt.Fprintf(sb, "%d %s|%s|%s|%v|%v", i, resp.Kind, resp.Node, resp.Text, resp.Tags, resp.Err != "")
		for _, o := range resp.Opts {
			fmt.Fprintf(sb, "|%s/%v/%v", o.Text, o.Tags, o.Disabled)
		}
		fmt.Fprintf(sb, " store %s", fmtStrMap(d.h.StoreCanon()))
		if (resp.Kind == rLine || resp.Kind == rOptions) && len(d.h.kept) > 0 {
			fmt.Fprintf(sb, " element %s", d.h.kept[len(d.h.kept)-1].canon)
		}
		sb.WriteString("\n")
	}
}

var varNameRE = regexp.MustCompile(`\$[A-Za-z_][A-Za-z0-9_]*`)

// renamedWorld: the same scripts with every variable name made unique by a suffix, so that a
// process which loads many of them meets thousands of distinct identifiers.
func renamedWorld(w *World, suffix string) *World {
	c := *w
	c.Readers = nil
	for _, r := range w.Readers {
		if r.B64 == "" {
			r.Text = varNameRE.ReplaceAllString(r.Text, "${0}"+suffix)
		}
		c.Readers = append(c.Readers, r)
	}
	return &c
}

// kitchenSink is a fixed script that uses every built-in function, every kind of markup marker, options with
// conditions and tags, variables of the three types, a jump and a short wait. Every C18 stress child drives
// several runners of it concurrently as the FIRST thing the cold process does: whatever the library sets up
// lazily on first use (tables, caches, compiled patterns) is then set up by several goroutines at once.
const kitchenSink = `title: Start
---
<<declare $n = 1.5>>
<<declare $b = true>>
<<declare $s = "txt">>
K1 {round($n)} {round_places(1.23456, 2)} {round_places(1.23456, 17)} {round_places(1.23456, 16)} {round_places(12345, -2)} {round_places(12345.678, -15)} {floor($n)} {ceil($n)} {inc($n)} {dec($n)} {decimal($n)} {integer($n)}
K2 {string($n)} {string($b)} {number("2.5")} {bool("true")} {dice(6)} {random_range(1, 3)} {random() < 1} {visited("Start")} {visited_count("Side")}
K3 [b]bold[/b] [wave a=1 s="q r"]w[/wave] [nomarkup][x] raw [/b][/nomarkup] [select value=b a="A" b="B" /] [plural value=2 one="cat" other="% cats" /] [ordinal value=3 one="%st" two="%nd" few="%rd" other="%th" /] \[esc\] [a/] Mae: tail
-> O1 plain #tag1
    <<set $n += 1>>
-> O2 [em]x[/em] <<if $b and not ($n > 5)>> #t2 #t3
-> O3 off <<if $n > 100 or $s == "zzz">>
<<set $s += "!">>
<<wait 0.001>>
<<jump Side>>
===
title: Side
---
K4 {$n} {$b} {$s} {visited_count("Start")} {1 + 2 * 3 - 4 / 2 % 3} {"a" + "b" == "ab"} {not false xor true}
<<if $n >= 2>>
K5 then
<<elseif $n < 0>>
K5 elseif
<<else>>
K5 else
<<endif>>
===
`

func kitchenSinkTrace(seed string) string {
	w := &World{Readers: []ReaderSpec{{Text: kitchenSink}}, Host: HostSpec{Storer: "rec", Probes: true, Seed: seed}}
	ops := make([]Op, 12)
	for i := range ops {
		ops[i] = Op{K: "next", Arg: 0}
	}
	return freeRun(&c18Runner{World: *w, Ops: ops})
}

func raceChildC18(rp *racePlan) {
	cp := rp.C18
	{
		const n = 6
		got := make([]string, n)
		var wg sync.WaitGroup
		start := make(chan struct{})
		for j := 0; j < n; j++ {
			wg.Add(1)
			go func(j int) {
				defer wg.Done()
				<-start
				got[j] = kitchenSinkTrace("k1")
			}(j)
		}
		close(start)
		wg.Wait()
		solo := kitchenSinkTrace("k1")
		if strings.HasPrefix(solo, "load failed") || !strings.Contains(solo, "K5 then") {
			fmt.Printf("STRESS-MISMATCH the fixed all-built-ins script does not run as written: %.300q\n", solo)
			return
		}
		for j := range got {
			if got[j] != solo {
				a, b := strings.Split(solo, "\n"), strings.Split(got[j], "\n")
				for i := 0; i < len(a) && i < len(b); i++ {
					if a[i] != b[i] {
						fmt.Printf("STRESS-MISMATCH all-built-ins script, goroutine %d of %d in a cold process: sequential %q concurrent %q\n", j, n, a[i], b[i])
						return
					}
				}
				fmt.Printf("STRESS-MISMATCH all-built-ins script, goroutine %d: trace lengths differ\n", j)
				return
			}
		}
	}
	// concurrently, from the first instruction of the process (cold caches)
	type job struct{ runner, copyNo int }
	var jobs []job
	for c := 0; c*len(cp.Runners) < rp.Workers; c++ {
		for r := range cp.Runners {
			jobs = append(jobs, job{r, c})
		}
	}
	results := make([]string, len(jobs))
	var wg sync.WaitGroup
	start := make(chan struct{})
	for j := range jobs {
		wg.Add(1)
		go func(j int) {
			defer wg.Done()
			<-start
			results[j] = freeRun(&cp.Runners[jobs[j].runner])
		}(j)
	}
	close(start)
	wg.Wait()
	// long-lived runners: created and driven half-way now, finished only after (one of them: during)
	// the creation storm below. What the rest of the process loads meanwhile must not reach them.
	type sentinel struct {
		d   *dynRunner
		sb  strings.Builder
		mid int
	}
	sentinels := make([]*sentinel, len(cp.Runners))
	for r := range cp.Runners {
		d, err := newDyn(&cp.Runners[r].World, false)
		if err != nil {
			continue
		}
		d.h.freeRunning = true
		sn := &sentinel{d: d, mid: len(cp.Runners[r].Ops) / 2}
		freeRunRange(d, &cp.Runners[r], 0, sn.mid, &sn.sb)
		sentinels[r] = sn
	}
	// a creation storm: every worker loads the plan's scripts again and again (several hundred loads per
	// process), every load with its own variable names (thousands of distinct identifiers per process)
	var wg2 sync.WaitGroup
	start2 := make(chan struct{})
	var loadFailures int64
	var mu sync.Mutex
	for w := 0; w < 16; w++ {
		wg2.Add(1)
		go func(w int) {
			defer wg2.Done()
			<-start2
			for k := 0; k < 40; k++ {
				r := &cp.Runners[(w+k)%len(cp.Runners)]
				world := &r.World
				if k%4 != 0 {
					world = renamedWorld(world, fmt.Sprintf("_w%dk%d", w, k))
				}
				if k%5 == 4 {
					// an aborted load in between: its failure is expected, what it leaves behind is not
					text := ""
					for _, rd := range world.Readers {
						text += string(rd.bytes()) + "\n"
					}
					bw := World{Host: world.Host, Readers: []ReaderSpec{{Text: text + brokenTails[(w+k)%len(brokenTails)]}}}
					if d, err := newDyn(&bw, false); err == nil {
						d.h.Close()
					}
					continue
				}
				d, err := newDyn(world, false)
				if err != nil {
					mu.Lock()
					loadFailures++
					mu.Unlock()
					continue
				}
				d.h.freeRunning = true
				d.apply(&Op{K: "next"})
				d.h.Close()
			}
		}(w)
	}
	close(start2)
	if sn := sentinels[0]; sn != nil {
		freeRunRange(sn.d, &cp.Runners[0], sn.mid, len(cp.Runners[0].Ops), &sn.sb) // while the storm runs
		sn.mid = len(cp.Runners[0].Ops)
	}
	wg2.Wait()
	for r, sn := range sentinels {
		if sn != nil {
			freeRunRange(sn.d, &cp.Runners[r], sn.mid, len(cp.Runners[r].Ops), &sn.sb)
			sn.d.h.Close()
		}
	}
	if loadFailures > 0 {
		fmt.Printf("STRESS-MISMATCH %d of 512 concurrent loads of valid scripts failed (128 aborted loads of broken scripts ran next to them)\n", loadFailures)
		return
	}
	// sequentially afterwards
	compared := 0
	for r := range cp.Runners {
		solo := freeRun(&cp.Runners[r])
		if sn := sentinels[r]; sn != nil {
			compared++
			if got := sn.sb.String(); got != solo {
				a, b := strings.Split(solo, "\n"), strings.Split(got, "\n")
				for i := 0; i < len(a) && i < len(b); i++ {
					if a[i] != b[i] {
						fmt.Printf("STRESS-MISMATCH runner %d, created before and finished after 640 other loads: alone %q, long-lived %q\n", r, a[i], b[i])
						return
					}
				}
				fmt.Printf("STRESS-MISMATCH runner %d, created before and finished after 640 other loads: trace lengths %d vs %d\n", r, len(a), len(b))
				return
			}
		}
		for j := range jobs {
			if jobs[j].runner != r {
				continue
			}
			compared++
			if results[j] != solo {
				a, b := strings.Split(solo, "\n"), strings.Split(results[j], "\n")
				for i := 0; i < len(a) && i < len(b); i++ {
					if a[i] != b[i] {
						fmt.Printf("STRESS-MISMATCH runner %d copy %d: sequential %q concurrent %q\n", r, jobs[j].copyNo, a[i], b[i])
						return
					}
				}
				fmt.Printf("STRESS-MISMATCH runner %d copy %d: trace lengths %d vs %d\n", r, jobs[j].copyNo, len(a), len(b))
				return
			}
		}
	}
	fmt.Printf("STRESS-OK %d gomaxprocs=%d\n", compared, runtime.GOMAXPROCS(0))
}

// c10StressPlan: a C10 world whose handlers complete on their own (no gates), with the model's
// expected non-waiting responses.
func c10StressPlan(tp *Tape, env *Env) *Plan {
	cfg := &GenCfg{
		MaxNodes: 2, MaxStmts: 5, MaxDepth: 2, MaxTotal: 20,
		WLine: 6, WOptions: 2, WIf: 2, WSet: 3, WJump: 1, WCall: 1, WCommand: 9, WWait: 2,
		NVars: [3]int{2, 1, 1}, Probes: true, ExprDepth: 1, InlinePct: 20, CondPct: 20,
		WaitVals: []float64{0, 0.001, 0.002, 0.0005},
	}
	cfg.Handlers = drawHandlers(tp, 3)
	if len(cfg.Handlers) == 0 {
		cfg.Handlers = []HandlerSpec{{Name: "c0", Shape: "conv_error", Params: []string{"int", "string"}}}
	}
	waitRuns := tp.Chance(50, "waitruns")
	if waitRuns {
		cfg.WWait = 6
	}
	g := &gen{tp: tp, cfg: cfg}
	prog := g.program()
	if waitRuns {
		// runs of waits back to back: the goroutine of one wait is still winding down when the next one starts
		for _, n := range prog.Nodes {
			var body []*Stmt
			for _, st := range n.Body {
				body = append(body, st)
				if st.K == sWait {
					for k := tp.Int(1, 3, "morewaits"); k > 0; k-- {
						body = append(body, &Stmt{K: sWait, E: &Expr{K: eNum, N: cfg.WaitVals[tp.Int(0, len(cfg.WaitVals)-1, "morewaitval")]}})
					}
				}
			}
			n.Body = body
		}
		// and one run right at the start, where every execution passes
		var run []*Stmt
		for k := tp.Int(3, 5, "startwaits"); k > 0; k-- {
			run = append(run, &Stmt{K: sWait, E: &Expr{K: eNum, N: cfg.WaitVals[tp.Int(0, len(cfg.WaitVals)-1, "startwaitval")]}})
		}
		prog.Nodes[0].Body = append(run, prog.Nodes[0].Body...)
	}
	layout := Layout{Indent: "    ", FinalNL: true}
	w := World{Readers: []ReaderSpec{{Text: renderNodes(prog.Nodes, layout, 0)}}}
	scheds := drawScheds(tp, true)
	for i := range scheds {
		scheds[i].Immediate = true
		scheds[i].Polls = 0
	}
	w.Host = HostSpec{Storer: "rec", Probes: true, Seed: "s1", Handlers: cfg.Handlers, Scheds: scheds}
	m := newModel(prog, cfg.Handlers, scheds)
	// drive the model: waits complete by advancing model time, nothing else is pending for long
	var ops []Op
	for len(ops) < 60 && !m.faulted && m.discard == "" {
		st := m.HostState()
		if st == "PENDING" && m.pending.IsWait {
			m.Advance(m.pending.Deadline - m.now + 1)
			continue
		}
		arg := 0
		if st == "CHOOSING" {
			arg = tp.Int(0, len(m.choosing.Options)-1, "choice")
		}
		wasWait := len(ops) > 0 && ops[len(ops)-1].Exp != nil && ops[len(ops)-1].Exp.Kind == rWaiting && len(m.waits) > 0
		nw := len(m.waits)
		op := recordNext(m, arg)
		ops = append(ops, op)
		if wasWait && len(m.waits) > nw && env != nil && env.St != nil {
			env.St.probe("stress_plan_with_waits_back_to_back")
		}
		if op.Exp != nil && op.Exp.Kind == rEnd {
			break
		}
	}
	if m.discard != "" || m.faulted {
		return nil
	}
	var invs []MInv
	for _, inv := range m.invs {
		invs = append(invs, *inv)
	}
	return &Plan{Harness: 1, Property: "C10", Program: prog, World: w, Ops: ops, Extra: map[string]any{"model_invocations": invs}}
}

func c10FreeRun(p *Plan) string {
	d, err := newDyn(&p.World, false)
	if err != nil {
		return "load failed: " + err.Error()
	}
	d.h.freeRunning = true
	defer d.h.Close()
	k := 0
	firstArg, haveFirst := 0, false
	for i := range p.Ops {
		op := &p.Ops[i]
		if op.K != "next" || op.Exp == nil {
			continue
		}
		if !haveFirst {
			// the argument that matters is the one of the first call after the previous element (a choice, possibly)
			firstArg, haveFirst = op.Arg, true
		}
		if op.Exp.Kind == rWaiting {
			continue
		}
		arg := firstArg
		haveFirst = false
		var r Resp
		deadline := time.Now().Add(90 * time.Second)
		for {
			r = d.h.Next(arg)
			if r.Kind != rWaiting || time.Now().After(deadline) {
				break
			}
			time.Sleep(20 * time.Microsecond)
		}
		k++
		if op.Exp.Kind == rError {
			if r.Kind != rError {
				return fmt.Sprintf("response %d: expected the command's error, got %s %q", k, r.Kind, r.Text)
			}
			continue
		}
		if dd := respDiff(*op.Exp, r); dd != "" {
			return fmt.Sprintf("response %d differs (%s): expected %s %q, got %s %q %s", k, dd, op.Exp.Kind, op.Exp.Text, r.Kind, r.Text, r.Err)
		}
	}
	if haveFirst {
		// the plan ends in calls that are only expected to answer "waiting" (cut by its op budget, or a loop of
		// commands without any element): how many dispatches such calls make under the real scheduler is not fixed,
		// so the number of invocations is not compared for this plan (the deterministic mode compares it exactly)
		return ""
	}
	minvs, _ := decodeExtra[[]MInv](p, "model_invocations")
	// a handler that runs on its own goroutine may not have started yet: give it time before counting
	for w := time.Now().Add(30 * time.Second); d.h.nInvs() < len(minvs) && time.Now().Before(w); {
		time.Sleep(200 * time.Microsecond)
	}
	time.Sleep(2 * time.Millisecond)
	if n := d.h.nInvs(); n != len(minvs) {
		return fmt.Sprintf("%d handler invocations for %d executed command statements", n, len(minvs))
	}
	return ""
}

func raceChildC10(rp *racePlan) {
	var wg sync.WaitGroup
	start := make(chan struct{})
	n := 0
	var mu sync.Mutex
	var problems []string
	for c := 0; c < rp.Rounds; c++ {
		for _, p := range rp.C10 {
			wg.Add(1)
			n++
			go func(p *Plan) {
				defer wg.Done()
				<-start
				if msg := c10FreeRun(p); msg != "" {
					mu.Lock()
					problems = append(problems, msg)
					mu.Unlock()
				}
			}(p)
		}
	}
	close(start)
	wg.Wait()
	if len(problems) > 0 {
		fmt.Printf("STRESS-MISMATCH %s\n", problems[0])
		return
	}
	fmt.Printf("STRESS-OK %d gomaxprocs=%d\n", n, runtime.GOMAXPROCS(0))
}
