package zz_verif_sim

// Dynamic (model-free) driving of hosts: ops carry raw arguments; a choice is the
// raw argument folded into the range of the option group the real runner last
// returned. Used by the real-vs-real oracles (C07, C09, C11, C12, C14, C18).

import (
	"fmt"
	"regexp"
	"sort"
	"strings"
	"time"

	"github.com/remieven/ysgo"
	"github.com/remieven/ysgo/variable"
)

// snapCanon is a canonical deep copy of a snapshot (nil and empty maps are the same thing).
type snapCanon struct {
	Node   string            `json:"node"`
	Vars   map[string]string `json:"vars"`
	Counts map[string]int    `json:"counts"`
}

func canonSnap(s *ysgo.Snapshot) snapCanon {
	c := snapCanon{Vars: map[string]string{}, Counts: map[string]int{}}
	if s == nil {
		return c
	}
	c.Node = s.CurrentNode
	for k, v := range s.Variables {
		vv := v
		if val, ok := fromYarn(&vv); ok {
			c.Vars[k] = val.canon()
		} else {
			c.Vars[k] = "invalid"
		}
	}
	for k, v := range s.VisitedNodes {
		if v != 0 {
			c.Counts[k] = v
		}
	}
	return c
}

func (a snapCanon) equal(b snapCanon) bool {
	if a.Node != b.Node || !sameStrMap(a.Vars, b.Vars) || len(a.Counts) != len(b.Counts) {
		return false
	}
	for k, v := range a.Counts {
		if b.Counts[k] != v {
			return false
		}
	}
	return true
}

func (a snapCanon) String() string {
	keys := make([]string, 0, len(a.Counts))
	for k := range a.Counts {
		keys = append(keys, k)
	}
	sort.Strings(keys)
	s := "node=" + a.Node + " vars=" + fmtStrMap(a.Vars) + " counts={"
	for i, k := range keys {
		if i > 0 {
			s += ", "
		}
		s += fmt.Sprintf("%s: %d", k, a.Counts[k])
	}
	return s + "}"
}

type dynRunner struct {
	nLate  int
	h      *Host
	last   Resp
	bubble bool
	nNext  int
	slots  map[int]*ysgo.Snapshot
}

func newDyn(w *World, bubble bool) (*dynRunner, error) {
	h, pv := newHost(w)
	if pv != nil {
		return nil, fmt.Errorf("load panic: %v", pv)
	}
	if h.loadErr != nil {
		return nil, fmt.Errorf("load error: %v", h.loadErr)
	}
	return &dynRunner{h: h, bubble: bubble}, nil
}

func foldChoice(raw, n int) int {
	if n <= 0 {
		return raw
	}
	return ((raw % n) + n) % n
}

// apply executes one dynamic op; for "next" it returns the response.
func (d *dynRunner) apply(op *Op) *Resp {
	switch op.K {
	case "next":
		arg := op.Arg
		if d.last.Kind == rOptions && len(d.last.Opts) > 0 {
			arg = foldChoice(op.Arg, len(d.last.Opts))
		}
		prevKind := d.last.Kind
		if trackActive {
			saved := activeHost
			activeHost = d.h
			defer func() { activeHost = saved }()
		}
		r := d.h.Next(arg)
		settle(d.bubble)
		if d.h.releaseAuto() {
			settle(d.bubble)
		}
		d.last = r
		d.nNext++
		if gStats != nil {
			// abstract state as the host sees it: previous answer x this answer x node x number of options
			gStats.distinct("abstract_states", hashStr(prevKind, r.Kind, r.Node, string(rune('0'+len(r.Opts)))))
		}
		return &r
	case "write":
		if d.h.st != nil && op.Val != nil {
			hostWrite(d.h.st, op.Var, *op.Val)
		}
	case "clear":
		if d.h.st != nil {
			d.h.st.Clear()
		}
	case "advance":
		if d.bubble {
			sleepInBubble(time.Duration(op.Ns))
		}
	case "snapshot":
		if d.slots == nil {
			d.slots = map[int]*ysgo.Snapshot{}
		}
		d.slots[op.Slot] = d.h.dr.Snapshot()
	case "restore":
		if s, ok := d.slots[op.Slot]; ok {
			if err, pv := safeRestore(d, s); err == nil && pv == nil {
				d.last = Resp{}
			}
		}
	case "register":
		// the host registers one more function and one more command, at whatever moment the plan says
		d.nLate++
		name := fmt.Sprintf("late%d", d.nLate)
		h := d.h
		h.dr.AddFunction(name, func(args []*variable.Value) (*variable.Value, error) {
			h.call("fn", name)
			return variable.NewNumber(1), nil
		})
		h.dr.AddCommand(name, func(args []*variable.Value) <-chan error {
			h.call("cmd", name)
			ch := make(chan error, 1)
			ch <- nil
			return ch
		})
	case "release_all":
		n := d.h.nInvs()
		for j := 0; j < n; j++ {
			d.h.Release(j, op.Err)
		}
		settle(d.bubble)
	}
	return nil
}

var invIndexRe = regexp.MustCompile(`#\d+$`)

func normEvents(evs []string) []string {
	out := make([]string, len(evs))
	for i, e := range evs {
		out[i] = invIndexRe.ReplaceAllString(e, "")
	}
	return out
}

func sameStrs(a, b []string) bool {
	if len(a) != len(b) {
		return false
	}
	for i := range a {
		if a[i] != b[i] {
			return false
		}
	}
	return true
}

// respEqual compares two real responses (error texts included: both sides are real).
func respEqual(a, b Resp) bool {
	return respDiff(a, b) == "" && (a.Err == "") == (b.Err == "")
}

// drawDynOps draws a host op sequence for dynamic driving.
func drawDynOps(tp *Tape, n int, vars [3][]string, writePct int, withCommands bool) []Op {
	var ops []Op
	for i := 0; i < n; i++ {
		if writePct > 0 && tp.Chance(writePct, "dynwrite") {
			names, kinds := []string{"h0"}, []byte{'n'}
			for k, ty := range []byte{'n', 'b', 's'} {
				for _, v := range vars[k] {
					names = append(names, v)
					kinds = append(kinds, ty)
				}
			}
			j := tp.Int(0, len(names)-1, "dynvar")
			var v Val
			switch kinds[j] {
			case 'n':
				v = numV(float64(tp.Int(0, 9, "dynnum")))
			case 'b':
				v = boolV(tp.Bool("dynbool"))
			default:
				v = strV([]string{"host", "", "h w"}[tp.Int(0, 2, "dynstr")])
			}
			ops = append(ops, Op{K: "write", Var: names[j], Val: &v})
		}
		if withCommands && tp.Chance(35, "dynrelease") {
			ops = append(ops, Op{K: "release_all", Err: tp.Chance(15, "dynrelerr")})
		}
		if withCommands && tp.Chance(10, "dynadvance") {
			ops = append(ops, Op{K: "advance", Ns: int64(tp.Int(1, 4000, "dynadvms")) * 1e6})
		}
		ops = append(ops, Op{K: "next", Arg: tp.Int(-2, 5, "dynarg")})
	}
	return ops
}

func describeDynOps(ops []Op) string {
	var sb strings.Builder
	for i, o := range ops {
		if i > 0 {
			sb.WriteString(" ")
		}
		switch o.K {
		case "next":
			fmt.Fprintf(&sb, "next(%d)", o.Arg)
		case "write":
			fmt.Fprintf(&sb, "write(%s)", o.Var)
		default:
			sb.WriteString(o.K)
		}
	}
	return sb.String()
}

func yarnValues(m map[string]Val) map[string]variable.Value {
	out := make(map[string]variable.Value, len(m))
	for k, v := range m {
		out[k] = *toYarn(v)
	}
	return out
}
