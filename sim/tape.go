package zz_verif_sim

// The choice tape: every random decision of every world is a rapid draw, so a
// world is a pure function of the rapid seed, and rapid's shrinker minimises
// failing worlds. Smaller draws are "simpler" by convention (0 = the plain case).

import (
	"pgregory.net/rapid"
)

type Tape struct {
	t *rapid.T
}

// Int draws an integer in [lo,hi]; shrinks towards lo.
func (tp *Tape) Int(lo, hi int, label string) int {
	if hi <= lo {
		return lo
	}
	return rapid.IntRange(lo, hi).Draw(tp.t, label)
}

// Bool draws a boolean; shrinks towards false.
func (tp *Tape) Bool(label string) bool {
	return rapid.IntRange(0, 1).Draw(tp.t, label) == 1
}

// Chance is true with roughly pct percent probability; shrinks towards false.
func (tp *Tape) Chance(pct int, label string) bool {
	if pct <= 0 {
		return false
	}
	if pct >= 100 {
		return true
	}
	return rapid.IntRange(0, 99).Draw(tp.t, label) >= 100-pct
}

// Pick draws an index into a list of n alternatives with the given weights
// (weights may be nil for uniform); shrinks towards index 0.
func (tp *Tape) Pick(weights []int, label string) int {
	total := 0
	for _, w := range weights {
		total += w
	}
	if total <= 0 {
		return 0
	}
	x := rapid.IntRange(0, total-1).Draw(tp.t, label)
	for i, w := range weights {
		if x < w {
			return i
		}
		x -= w
	}
	return len(weights) - 1
}

// Uint64 draws a 64-bit value (used as the seed of derived local layouts).
func (tp *Tape) Uint64(label string) uint64 {
	return rapid.Uint64().Draw(tp.t, label)
}

// splitmix64 is the derived PRNG used where per-position draws would make the
// tape needlessly long (layout decoration). It is a pure function of its state.
type splitmix struct{ s uint64 }

func (r *splitmix) next() uint64 {
	r.s += 0x9e3779b97f4a7c15
	z := r.s
	z = (z ^ (z >> 30)) * 0xbf58476d1ce4e5b9
	z = (z ^ (z >> 27)) * 0x94d049bb133111eb
	return z ^ (z >> 31)
}

func (r *splitmix) intn(n int) int {
	if n <= 1 {
		return 0
	}
	return int(r.next() % uint64(n))
}

func (r *splitmix) chance(pct int) bool { return r.intn(100) < pct }

func mix64(a, b uint64) uint64 {
	r := splitmix{s: a ^ (b * 0x9e3779b97f4a7c15)}
	r.next()
	return r.next()
}
