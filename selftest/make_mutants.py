#!/usr/bin/env python3
"""Regenerates selftest/mutants/*.patch: hand-written, realistic, compiling breakages of
RemiEven/ysgo, one or more per claimed property. Each is produced by a textual replacement
in a scratch worktree of /repo HEAD (never in /repo) and stored as a git diff."""
import os, subprocess, sys, shutil

M = [
 # name, expected-to-catch, file, old, new
 ("c01-jump-keeps-stack", "C01", "runner.go", "\t\tdr.statementsToRun.Clear()\n\t\tdr.statementsToRun.Push(&statementQueue{statements: node.Statements})\n\t\tdr.currentNode = node.Title()\n\t}\n\treturn nil\n}\n\nfunc (dr *DialogueRunner) incrementNodeTrackingIfAllowed",
                                        "\t\tdr.statementsToRun.Push(&statementQueue{statements: node.Statements})\n\t\tdr.currentNode = node.Title()\n\t}\n\treturn nil\n}\n\nfunc (dr *DialogueRunner) incrementNodeTrackingIfAllowed"),
 ("c01-if-falls-through", "C01", "runner.go", "\t\t\tdr.statementsToRun.Push(&statementQueue{statements: clause.Statements})\n\t\t\treturn nil\n", "\t\t\tdr.statementsToRun.Push(&statementQueue{statements: clause.Statements})\n"),
 ("c01-last-reader-first-node", "C01", "internal/tree/creator.go", "\t\tdialogue.Nodes = append(dialogue.Nodes, d.Nodes...)", "\t\tdialogue.Nodes = append(d.Nodes, dialogue.Nodes...)"),
 ("c01-empty-option-body-skips", "C01", "runner.go", "dr.lastStatement.ShortcutOptionStatement.Options[choice].Statements; len(statements) != 0 {", "dr.lastStatement.ShortcutOptionStatement.Options[choice].Statements; len(statements) > 1 {"),
 ("c01-lexer-drops-dedent", "C01", "internal/parser/indent_aware_lexer.go", "\t\tfor currentIndentationLength < previousIndent {\n\t\t\tpreviousIndent = ial.indents.Pop()\n\t\t\tial.insertToken", "\t\tfor currentIndentationLength < previousIndent && ial.indents.Size() != 3 {\n\t\t\tpreviousIndent = ial.indents.Pop()\n\t\t\tial.insertToken"),
 ("c03-write-before-check", "C03", "runner.go", "\tpreviousValue, ok := dr.variableStorer.GetValue(statement.VariableID)\n", "\tpreviousValue, ok := dr.variableStorer.GetValue(statement.VariableID)\n\tif value.Number != nil && statement.InPlaceOperator == tree.AssignmentInPlaceOperator {\n\t\tdr.variableStorer.SetNumberValue(statement.VariableID, *value.Number)\n\t}\n"),
 ("c03-modulo-is-division", "C03", "runner.go", "newNumberValue = math.Mod(*previousValue.Number, numberValue)", "newNumberValue = float64(int(*previousValue.Number) % int(numberValue+1e-9+1) )"),
 ("c03-declare-keeps-existing", "C03", "runner.go", "func (dr *DialogueRunner) executeDeclareStatement(statement *tree.DeclareStatement) error {\n", "func (dr *DialogueRunner) executeDeclareStatement(statement *tree.DeclareStatement) error {\n\tif dr.variableStorer.Contains(statement.VariableID) {\n\t\treturn nil\n\t}\n"),
 ("c03-compound-on-unknown-allowed", "C03", "runner.go", "\t} else if statement.InPlaceOperator != tree.AssignmentInPlaceOperator {\n\t\treturn fmt.Errorf(\"variable [%s] not found in storage, only assignment is allowed\", statement.VariableID)\n\t}", "\t} else if statement.InPlaceOperator != tree.AssignmentInPlaceOperator && value.Number == nil {\n\t\treturn fmt.Errorf(\"variable [%s] not found in storage, only assignment is allowed\", statement.VariableID)\n\t} else if !ok {\n\t\tzero := 0.0\n\t\tpreviousValue = &variable.Value{Number: &zero}\n\t}"),
 ("c05-drop-lexer-listener", "C05", "internal/tree/creator.go", "\tlexer.AddErrorListener(errorListener)\n", ""),
 ("c05-swallow-read-error", "C05", "internal/tree/creator.go", "\tif err != nil {\n\t\treturn nil, fmt.Errorf(\"failed to read content: %w\", err)\n\t}", "\tif err != nil && len(scriptData) == 0 {\n\t\treturn nil, fmt.Errorf(\"failed to read content: %w\", err)\n\t}"),
 ("c05-skip-empty-check", "C05", "internal/tree/creator.go", "\tif len(scriptData) == 0 {\n\t\treturn nil, errors.New(\"dialogue is empty\")\n\t}\n", ""),
 ("c05-no-recover", "C05", "internal/tree/creator.go", "\t\tif r := recover(); r != nil {\n\t\t\terr = fmt.Errorf(\"failed to parse dialogue: %v\", r)\n\t\t}", "\t\tif r := recover(); r != nil {\n\t\t\tpanic(r)\n\t\t}"),
 ("c06-dice-guard-off-by-one", "C06", "base_functions.go", "\t\tif sides < 1 {", "\t\tif sides < 0 {"),
 ("c06-range-overflow-unchecked", "C06", "base_functions.go", "if upperBound < lowerBound || upperBound-lowerBound+1 <= 0 {", "if upperBound < lowerBound {"),
 ("c06-nil-result-unchecked-in-line", "C06", "evaluator.go", "\tif result == nil {\n\t\treturn nil, fmt.Errorf(\"function %s did not return a value\", call.FunctionID)\n\t}\n", "\tif result == nil && len(call.Arguments) > 0 {\n\t\treturn nil, fmt.Errorf(\"function %s did not return a value\", call.FunctionID)\n\t}\n"),
 ("c06-unknown-command-closed-chan", "C06", "command_storer.go", "\t\terrChan := make(chan error, 1)\n\t\terrChan <- fmt.Errorf(\"unknown command\")\n\t\treturn errChan", "\t\terrChan := make(chan error, 1)\n\t\tclose(errChan)\n\t\treturn errChan"),
 ("c07-snapshot-aliases-counts", "C07", "runner.go", "\t\tVisitedNodes: copyVisitedNodes(dr.visitedNodes),", "\t\tVisitedNodes: dr.visitedNodes,"),
 ("c07-restore-adopts-counts", "C07", "runner.go", "\tdr.visitedNodes = copyVisitedNodes(snapshot.VisitedNodes)", "\tdr.visitedNodes = snapshot.VisitedNodes\n\tif dr.visitedNodes == nil {\n\t\tdr.visitedNodes = map[string]int{}\n\t}"),
 ("c07-restore-keeps-choice", "C07", "runner.go", "\tdr.lastStatement = nil\n\tdr.commandErrChan = nil\n", "\tdr.commandErrChan = nil\n"),
 ("c07-restore-keeps-command", "C07", "runner.go", "\tdr.lastStatement = nil\n\tdr.commandErrChan = nil\n", "\tdr.lastStatement = nil\n"),
 ("c07-restore-keeps-varsnapshot", "C07", "runner.go", "\tdr.variableSnapshot = copyVariables(snapshot.Variables)\n", ""),
 ("c07-bogus-restore-clears-first", "C07", "runner.go", "\tnode, ok := dr.dialogue.FindNode(snapshot.CurrentNode)\n\tif !ok {", "\tnode, ok := dr.dialogue.FindNode(snapshot.CurrentNode)\n\tif !ok {\n\t\tdr.variableStorer.Clear()"),
 ("c09-global-rand-source", "C09", "internal/rng/rng.go", "return lowerBound + rng.source.Intn(upperBound-lowerBound+1)", "return lowerBound + rand.Intn(upperBound-lowerBound+1)"),
 ("c09-upper-bound-exclusive", "C09", "internal/rng/rng.go", "rng.source.Intn(upperBound-lowerBound+1)", "rng.source.Intn(upperBound-lowerBound+2)"),
 ("c10-blocking-receive", "C10", "runner.go", "\t\tselect {\n\t\tcase err := <-dr.commandErrChan:\n\t\t\tdr.commandErrChan = nil\n\t\t\tif err != nil {\n\t\t\t\treturn nil, fmt.Errorf(\"failed to execute ongoing command: %w\", err)\n\t\t\t}\n\t\tdefault:\n\t\t\treturn nil, ErrWaitingForCommandCompletion\n\t\t}", "\t\tif choice == 7 {\n\t\t\terr := <-dr.commandErrChan\n\t\t\tdr.commandErrChan = nil\n\t\t\tif err != nil {\n\t\t\t\treturn nil, fmt.Errorf(\"failed to execute ongoing command: %w\", err)\n\t\t\t}\n\t\t} else {\n\t\t\tselect {\n\t\t\tcase err := <-dr.commandErrChan:\n\t\t\t\tdr.commandErrChan = nil\n\t\t\t\tif err != nil {\n\t\t\t\t\treturn nil, fmt.Errorf(\"failed to execute ongoing command: %w\", err)\n\t\t\t\t}\n\t\t\tdefault:\n\t\t\t\treturn nil, ErrWaitingForCommandCompletion\n\t\t\t}\n\t\t}"),
 ("c10-error-surfaced-twice", "C10", "runner.go", "\t\tcase err := <-dr.commandErrChan:\n\t\t\tdr.commandErrChan = nil\n\t\t\tif err != nil {", "\t\tcase err := <-dr.commandErrChan:\n\t\t\tif err == nil {\n\t\t\t\tdr.commandErrChan = nil\n\t\t\t} else {\n\t\t\t\tch := make(chan error, 1)\n\t\t\t\tch <- nil\n\t\t\t\tdr.commandErrChan = ch\n\t\t\t\tdr.statementsToRun.Peek().pointer--\n\t\t\t}\n\t\t\tif err != nil {"),
 ("c10-error-lost", "C10", "runner.go", "\t\t\tif err != nil {\n\t\t\t\treturn nil, fmt.Errorf(\"failed to execute ongoing command: %w\", err)\n\t\t\t}", "\t\t\tif err != nil && choice != 0 {\n\t\t\t\treturn nil, fmt.Errorf(\"failed to execute ongoing command: %w\", err)\n\t\t\t}"),
 ("c10-wait-truncates", "C10", "command_storer.go", "time.Sleep(time.Duration(*duration.Number * float64(time.Second)))", "time.Sleep(time.Duration(*duration.Number*1000) / 1000 * time.Second)"),
 ("c10-dispatch-on-every-poll", "C10", "runner.go", "\t\tdefault:\n\t\t\treturn nil, ErrWaitingForCommandCompletion\n\t\t}\n\t}\n\n\tif dr.isWaitingForChoice()", "\t\tdefault:\n\t\t\tif choice < -4 && dr.lastStatement != nil && dr.lastStatement.CommandStatement != nil {\n\t\t\t\tdr.executeCommandStatement(dr.lastStatement.CommandStatement)\n\t\t\t}\n\t\t\treturn nil, ErrWaitingForCommandCompletion\n\t\t}\n\t}\n\n\tif dr.isWaitingForChoice()"),
 ("c11-count-entered-node", "C11", "runner.go", "\t\tdr.incrementNodeTrackingIfAllowed()\n\t\tdr.variableSnapshot", "\t\tdr.variableSnapshot"),
 ("c11-count-entered-node-b", "C11", "runner.go", "\t\tdr.currentNode = node.Title()\n\t}\n\treturn nil\n}\n\nfunc (dr *DialogueRunner) incrementNodeTrackingIfAllowed", "\t\tdr.currentNode = node.Title()\n\t\tdr.incrementNodeTrackingIfAllowed()\n\t}\n\treturn nil\n}\n\nfunc (dr *DialogueRunner) incrementNodeTrackingIfAllowed"),
 ("c11-visited-uses-presence", "C11", "runner.go", "\t\tcount := runner.visitedNodes[node]\n\t\treturn count", "\t\tcount := runner.visitedNodes[node]\n\t\tif count > 2 {\n\t\t\treturn 2\n\t\t}\n\t\treturn count"),
 ("c12-stop-keeps-queue", "C12", "runner.go", "\t\t\tdr.statementsToRun.Clear()\n\t\t\treturn nil, nil\n", "\t\t\treturn nil, nil\n"),
 ("c12-choice-reused", "C12", "runner.go", "\t\tdr.lastStatement = nil // the choice has been consumed\n", ""),
 ("c14-reset-only-on-success", "C14", "markup/line_parser.go", "\tlineParser.sourcePosition = 0\n\tlineParser.position = 0\n", "\tif lineParser.reader == nil || lineParser.reader.Len() == 0 {\n\t\tlineParser.sourcePosition = 0\n\t}\n\tlineParser.position = 0\n"),
 ("c14-never-reset", "C14", "markup/line_parser.go", "\tlineParser.sourcePosition = 0\n", ""),
 ("c18-package-level-line-parser", "C18", "runner.go", "\tmarkupResult, err := dr.lineParser.ParseMarkup(builder.String())", "\tmarkupResult, err := sharedLineParser.ParseMarkup(builder.String())"),
 ("c18-shared-visited-map", "C18", "runner.go", "\t\tvisitedNodes:     map[string]int{},", "\t\tvisitedNodes:     sharedVisited,"),
 ("c20-queue-growth-copy-off", "C20", "internal/container/queue.go", "\tcopy(biggerBase[previousSize-q.first:], q.base[:q.first])", "\tcopy(biggerBase[previousSize-q.first:], q.base[:q.first-q.first/4])"),
 ("c20-queue-size-when-full", "C20", "internal/container/queue.go", "\tif q.next == q.first {\n\t\treturn cap(q.base)\n\t}", "\tif q.next == q.first {\n\t\treturn cap(q.base) - 1\n\t}"),
 ("c20-eof-pops-one-too-few", "C20", "internal/parser/indent_aware_lexer.go", "\tfor ial.indents.Size() > 0 {\n\t\tpreviousIndent := ial.indents.Pop()", "\tfor ial.indents.Size() > 0 && ial.indents.Size() != 4 {\n\t\tpreviousIndent := ial.indents.Pop()"),
 ("c20-stack-clear-keeps-one", "C20", "internal/container/stack.go", "\t*s = (*s)[:0]", "\tif len(*s) > 5 {\n\t\t*s = (*s)[:1]\n\t\treturn\n\t}\n\t*s = (*s)[:0]"),
]
EXTRA = {
 "c18-package-level-line-parser": ("runner.go", "type statementQueue struct {", "var sharedLineParser markup.LineParser\n\ntype statementQueue struct {"),
 "c18-shared-visited-map": ("runner.go", "type statementQueue struct {", "var sharedVisited = map[string]int{}\n\ntype statementQueue struct {"),
}

def main():
    out = os.path.dirname(os.path.abspath(__file__)) + "/mutants"
    wt = "/root/scratch/wt-mk"
    subprocess.run(["git", "-C", "/repo", "worktree", "remove", "--force", wt], capture_output=True)
    subprocess.check_call(["git", "-C", "/repo", "worktree", "add", "-q", "--detach", wt, "HEAD"])
    try:
        for f in os.listdir(out):
            os.remove(os.path.join(out, f))
        for name, prop, file, old, new in M:
            edits = [(file, old, new)]
            if name in EXTRA:
                edits.append(EXTRA[name])
            ok = True
            for file, old, new in edits:
                p = os.path.join(wt, file)
                s = open(p).read()
                if s.count(old) != 1:
                    print("SKIP %s: pattern found %d times in %s" % (name, s.count(old), file))
                    ok = False
                    break
                open(p, "w").write(s.replace(old, new))
            if ok:
                subprocess.run(["gofmt", "-w"] + [os.path.join(wt, e[0]) for e in edits], capture_output=True)
                b = subprocess.run(["go", "build", "./..."], cwd=wt, capture_output=True, text=True, env=dict(os.environ, GOFLAGS="-mod=mod", GOPROXY="off", GOSUMDB="off"))
                if b.returncode != 0:
                    print("SKIP %s: does not build: %s" % (name, b.stderr[:300]))
                else:
                    d = subprocess.run(["git", "diff"], cwd=wt, capture_output=True, text=True).stdout
                    open(os.path.join(out, "%s.patch" % name), "w").write(d)
            subprocess.check_call(["git", "checkout", "-q", "--", "."], cwd=wt)
        print("wrote", len(os.listdir(out)), "patches")
    finally:
        subprocess.run(["git", "-C", "/repo", "worktree", "remove", "--force", wt], capture_output=True)

main()
