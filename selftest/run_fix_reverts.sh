#!/bin/bash
# Reverts each `fix:` commit of /repo in a scratch worktree (never in /repo) and runs the check of the property
# it repaired: the check must report a violation again. Commits that no longer revert cleanly are covered by
# the partial-revert mutants in selftest/mutants (c07-*, c12-*, c14-*).
cd "$(dirname "$0")/.."
while read -r COMMIT PROP; do
  out=$(MUTANT_TESTS=0 tools/mutant_run.sh "revert:$COMMIT" "$PROP" 2>&1 | tail -1)
  subject=$(git -C /repo log -1 --format=%s "$COMMIT" | cut -c1-70)
  if echo "$out" | grep -q "rc=1"; then v=VIOLATION-AGAIN; elif echo "$out" | grep -q "cannot revert"; then v="does-not-revert-cleanly"; else v="QUIET(!)"; fi
  echo "$v $COMMIT $PROP [$subject] $(echo "$out" | grep -o 'clause [A-Za-z0-9._-]*' | head -2 | tr '\n' ' ')"
done <<LIST
4f46f9c C01
22f5712 C03
24b0944 C10
69e00f4 C03
c8026ca C14
a963a38 C12
83705e2 C07
e9d80c0 C07
9684521 C05
c5e8a78 C06
4db0155 C06
d28e16b C06
6cbe182 C06
63b20ec C06
LIST
