#!/bin/bash
# usage: selftest/run_mutants.sh [pattern]   — runs every selftest mutant against the quick check of the
# property in its name; prints CAUGHT / MISSED per mutant. Scratch worktrees only, /repo is never touched.
cd "$(dirname "$0")/.."
PAT=${1:-}
for p in selftest/mutants/*${PAT}*.patch; do
  name=$(basename "$p" .patch)
  prop=$(echo "$name" | sed -E 's/^c([0-9]+)-.*/C\1/')
  out=$(MUTANT_TESTS=${MUTANT_TESTS:-1} tools/mutant_run.sh "$(pwd)/$p" "$prop" 2>&1)
  suite=$(echo "$out" | grep -E '^suite:' | head -1)
  line=$(echo "$out" | grep -E "^$prop rc=" | head -1)
  if echo "$line" | grep -q "rc=1"; then verdict=CAUGHT; elif echo "$line" | grep -q "rc=0"; then verdict=MISSED; else verdict="TROUBLE"; fi
  echo "$verdict $name [$suite] $(echo "$line" | cut -c1-260)"
done
